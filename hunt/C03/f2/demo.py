"""
C03 / f2: a file offset table that belongs to an OLDER version of a data file is silently reused after Rally itself has
replaced the data file, because its validity is decided by mtime only (offset-table mtime >= data-file mtime) and extracting
a tar archive (a documented corpus format: .tar, .tar.gz, .tgz, .tar.bz2) restores the *archived* mtime of the data file.

History (all steps are what Rally does on its own when a corpus is updated by the track author):
  1. race #1: docs.json.tar.gz (v1) is extracted by Rally, the offset table is built (mtime = now).
  2. the track author publishes v2 of the corpus (same name, same number of documents, new sizes in track.json).
  3. race #2: Rally notices the size mismatch, downloads v2, extracts it (docs.json now carries the mtime stored in the archive,
     which is of course older than "now" of race #1), and then calls create_file_offset_table() -> the table is considered
     valid and kept, the line count check is skipped.
  4. the bulk task seeks with v1 byte offsets into the v2 file.

Real rally code: DocumentSetPreparator.prepare_document_set, Decompressor, io.decompress, io.prepare_file_offset_table,
BulkIndexParamSource and all readers. Fakes: only the Downloader (no network).
"""
import collections
import json
import logging
import os
import shutil
import sys
import tarfile
import tempfile
import time
import warnings

from esrally.track import loader, params, track
from esrally.utils import console

NUM_DOCS = 120_000  # > 50,000 lines so that the offset table has entries
CLIENTS = 4
BULK_SIZE = 5000


def write_corpus(directory, version, mtime):
    """v1 and v2 have the same number of documents but lines of different length"""
    os.makedirs(directory, exist_ok=True)
    path = os.path.join(directory, "docs.json")
    with open(path, "wt", encoding="utf-8") as f:
        for i in range(NUM_DOCS):
            if version == 1:
                f.write('{"n": %d, "v": 1}\n' % i)
            else:
                f.write('{"n": %d, "v": 2, "city": "Zürich", "note": "%s"}\n' % (i, "x" * (i % 7)))
    os.utime(path, (mtime, mtime))
    archive = os.path.join(directory, "docs.json.tar.gz")
    with tarfile.open(archive, "w:gz") as tar:
        tar.add(path, arcname="docs.json")
    return os.path.getsize(path), os.path.getsize(archive), archive


class FakeDownloader:
    """stands in for the network: 'downloads' the archive that the track author currently publishes"""

    def __init__(self):
        self.published = None
        self.downloads = 0

    def download(self, base_url, target_path, size_in_bytes):
        shutil.copyfile(self.published, target_path)
        self.downloads += 1


def ingest(doc_file):
    """run the bulk task with CLIENTS clients, one worker per client, and count how often each document is sent"""
    corpus = track.DocumentCorpus(
        "c", [track.Documents(source_format="bulk", document_file=doc_file, number_of_documents=NUM_DOCS, target_index="idx")]
    )
    t = track.Track(name="demo", corpora=[corpus])
    seen = collections.Counter()
    garbage = 0
    for client in range(CLIENTS):
        source = params.BulkIndexParamSource(t, {"bulk-size": BULK_SIZE}).partition(client, CLIENTS)
        while True:
            try:
                p = source.params()
            except StopIteration:
                break
            lines = p["body"].split(b"\n")[:-1]
            for doc in lines[1::2]:
                try:
                    seen[json.loads(doc)["n"]] += 1
                except ValueError:
                    garbage += 1
    return seen, garbage


def main():
    warnings.simplefilter("ignore")
    logging.disable(logging.CRITICAL)
    console.init(quiet=True)
    tmp = tempfile.mkdtemp()
    try:
        now = time.time()
        upstream_v1 = os.path.join(tmp, "upstream-v1")
        upstream_v2 = os.path.join(tmp, "upstream-v2")
        # the author created v1 ten days ago and v2 two days ago
        v1_size, v1_archive_size, v1_archive = write_corpus(upstream_v1, 1, now - 10 * 86400)
        v2_size, v2_archive_size, v2_archive = write_corpus(upstream_v2, 2, now - 2 * 86400)

        data_root = os.path.join(tmp, "benchmarks", "data", "c")
        os.makedirs(data_root)
        downloader = FakeDownloader()
        preparator = loader.DocumentSetPreparator("demo", downloader, loader.Decompressor())

        def document_set(uncompressed, compressed):
            return track.Documents(
                source_format="bulk",
                document_file="docs.json",
                document_archive="docs.json.tar.gz",
                base_url="http://benchmarks.example.org/corpora/c",
                number_of_documents=NUM_DOCS,
                uncompressed_size_in_bytes=uncompressed,
                compressed_size_in_bytes=compressed,
                target_index="idx",
            )

        # race #1 with corpus v1
        downloader.published = v1_archive
        preparator.prepare_document_set(document_set(v1_size, v1_archive_size), data_root)
        doc_file = os.path.join(data_root, "docs.json")
        seen, garbage = ingest(doc_file)
        assert garbage == 0 and seen == collections.Counter(range(NUM_DOCS)), "race #1 is expected to be fine"
        print(f"race #1 (corpus v1): all {NUM_DOCS} documents ingested exactly once")

        # the track author publishes v2; track.json now carries the new sizes. Rally re-downloads and re-extracts on its own.
        downloader.published = v2_archive
        preparator.prepare_document_set(document_set(v2_size, v2_archive_size), data_root)
        assert os.path.getsize(doc_file) == v2_size and downloader.downloads == 2
        print("race #2 (corpus v2): Rally downloaded and extracted the new data file; corpus preparation reported no problem")

        seen, garbage = ingest(doc_file)
        missing = [n for n in range(NUM_DOCS) if seen[n] == 0]
        duplicated = [n for n in seen if seen[n] > 1]
        if garbage or missing or duplicated:
            print(
                f"\nEXPECTED: the {CLIENTS} clients ingest every one of the {NUM_DOCS} documents of the v2 file exactly once.\n"
                f"OBSERVED: {len(missing)} documents never sent, {len(duplicated)} documents sent more than once, "
                f"{garbage} bulk lines that are not complete JSON documents (clients seek to byte offsets of the v1 file and "
                f"count lines from there)."
            )
            return 1
        print("OK: every document of the v2 file ingested exactly once")
        return 0
    finally:
        shutil.rmtree(tmp, ignore_errors=True)


if __name__ == "__main__":
    sys.exit(main())
