"""
C09 / F1: the premature death of a track-preparation process is never reported - the race hangs forever.

Runs the real `esrally race` (real race control, real actor system with real processes, real driver, real track
preparation, real load generators) against static responses, twice:

  A (control): the process of a load generator (driver.Worker) is SIGKILLed while it executes a task.
               -> the driver reports "Worker [0] has exited prematurely", the race ends as FAILURE in a few seconds.
  B          : the process of a track-preparation worker (driver.TaskExecutionActor) is SIGKILLed (as the kernel's
               OOM killer would do while a corpus is decompressed) while it executes a preparation task.
               -> expected: race control is notified in bounded time and the race ends as FAILURE, as in A.
               -> observed: nobody is notified, `esrally race` blocks forever (we give up after 60 seconds, the
                  preparation workers are polled every 5 seconds).

Only isolation measures are applied: a private RALLY_HOME, Rally's own process-local ("offline") actor system base so
that TCP port 1900 is not shared with other Rally users of this machine, and no "other Rally processes" check.

Run: cd <checkout> && PYTHONPATH=<checkout> /venv/bin/python demo.py
"""
import json
import os
import shutil
import signal
import subprocess
import sys
import tempfile
import time
import uuid

import psutil

WAIT_AFTER_KILL = 60

CHILD = r"""
import sys
from esrally import actor, rally
from esrally.utils import process
actor.use_offline_actor_system()
actor.actor_system_already_running = lambda ip="127.0.0.1": False
process.find_all_other_rally_processes = lambda: []
sys.argv = ["esrally"] + sys.argv[1:]
rally.main()
"""

TRACK_JSON = {
    "version": 2,
    "description": "C09 F1",
    "schedule": [
        {"operation": {"name": "slow", "operation-type": "slow"}, "clients": 1, "iterations": 1},
    ],
}

TRACK_PY = r'''
import asyncio, os, subprocess
from esrally.track.loader import TrackProcessor, DefaultTrackPreparator

async def slow(es, params):
    # a load generator task: tells the demo in which process it runs and takes a while
    es.on_request_start()
    if os.environ.get("C09_WORKER_PIDFILE"):
        with open(os.environ["C09_WORKER_PIDFILE"], "w") as f:
            f.write(str(os.getpid()))
        await asyncio.sleep(20)
    es.on_request_end()
    return {"weight": 1, "unit": "ops"}

class SlowPreparation(TrackProcessor):
    # a preparation task that takes a while (think: decompressing a corpus); it tells the demo in which process it runs.
    def on_prepare_track(self, track, data_root_dir):
        pidfile = os.environ.get("C09_PREP_PIDFILE")
        if pidfile:
            yield subprocess.call, {"args": ["sh", "-c", f"echo $PPID > {pidfile}; exec sleep 20"], "stdout": subprocess.DEVNULL, "stderr": subprocess.DEVNULL}
        else:
            yield os.getpid, {}

def register(registry):
    registry.register_runner("slow", slow, async_runner=True)
    registry.register_track_processor(SlowPreparation())
    registry.register_track_processor(DefaultTrackPreparator())
'''


def marked(marker):
    for p in psutil.process_iter():
        try:
            if p.environ().get("C09_MARKER") == marker:
                yield p
        except (psutil.NoSuchProcess, psutil.AccessDenied, psutil.ZombieProcess):
            pass


def race(work, which):
    marker = uuid.uuid4().hex
    home = os.path.join(work, f"home-{which}")
    os.makedirs(home)
    track = os.path.join(work, "c09f1track")
    responses = os.path.join(home, "responses.json")
    with open(responses, "w") as f:
        f.write('[{"path": "*", "body": {}}]')
    pidfile = os.path.join(home, "victim.pid")
    env = dict(os.environ, RALLY_HOME=home, C09_MARKER=marker, PYTHONPATH=os.getcwd())
    env["C09_WORKER_PIDFILE" if which == "load-generator" else "C09_PREP_PIDFILE"] = pidfile
    args = [sys.executable, "-c", CHILD, "race", f"--track-path={track}", "--pipeline=benchmark-only", "--distribution-version=8.0.0",
            f"--client-options=static_responses:'{responses}'", "--offline"]
    p = subprocess.Popen(args, env=env, stdout=subprocess.PIPE, stderr=subprocess.STDOUT, text=True)
    try:
        deadline = time.time() + 120
        while not os.path.exists(pidfile) or not open(pidfile).read().strip():
            if p.poll() is not None or time.time() > deadline:
                out = p.communicate()[0]
                raise SystemExit(f"demo setup problem: the {which} task never started:\n{out}")
            time.sleep(0.2)
        victim = int(open(pidfile).read().strip())
        time.sleep(1)
        os.kill(victim, signal.SIGKILL)
        killed_at = time.time()
        try:
            out, _ = p.communicate(timeout=WAIT_AFTER_KILL)
            outcome = "SUCCESS" if "SUCCESS" in out else "FAILURE" if "FAILURE" in out else f"exit code {p.returncode}"
            took = time.time() - killed_at
        except subprocess.TimeoutExpired:
            outcome, took = "HANG", None
        log = os.path.join(home, ".rally", "logs", "rally.log")
        notified = os.path.exists(log) and "A benchmark failure has occurred" in open(log).read()
        return outcome, took, notified
    finally:
        for q in list(marked(marker)):
            try:
                q.kill()
            except psutil.NoSuchProcess:
                pass
        if p.poll() is None:
            p.kill()
        p.communicate()


def main():
    work = tempfile.mkdtemp(prefix="c09f1")
    try:
        track = os.path.join(work, "c09f1track")
        os.makedirs(track)
        with open(os.path.join(track, "track.json"), "w") as f:
            json.dump(TRACK_JSON, f)
        with open(os.path.join(track, "track.py"), "w") as f:
            f.write(TRACK_PY)

        a = race(work, "load-generator")
        print(f"A  load generator process killed      : outcome={a[0]}, after {a[1] and round(a[1], 1)}s, race control notified={a[2]}")
        b = race(work, "track-preparation")
        print(f"B  track-preparation process killed   : outcome={b[0]}, after {b[1] and round(b[1], 1)}s, race control notified={b[2]}")
    finally:
        shutil.rmtree(work, ignore_errors=True)

    if a[0] != "FAILURE":
        print(f"UNEXPECTED: control run A should end as FAILURE but was {a[0]}")
        sys.exit(2)
    if b[0] == "FAILURE" and b[2]:
        print("OK: the death of a track-preparation process is reported to race control and the race ends as FAILURE.")
        sys.exit(0)
    print(
        "DEFECT: expected that race control receives a failure notification in bounded time when a track-preparation worker "
        f"process dies (like it does for a load generator, run A: FAILURE after {round(a[1], 1)}s); observed: {WAIT_AFTER_KILL}s after "
        f"the process was killed `esrally race` was still blocked (outcome={b[0]}, race control notified={b[2]}); it never ends."
    )
    sys.exit(1)


if __name__ == "__main__":
    main()
