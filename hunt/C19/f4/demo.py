"""
C19 / f4: the page accounting of paginated-search (`_search_after_query`) decides whether to go on with
`results.get("hits") / size > page`.  Both operands can legitimately be None, and then the runner dies
with a bare TypeError after the first page instead of following the cursor:

 (a) `results-per-page` omitted.  docs/track.rst, paginated-search: "results-per-page (optional) ...
     Defaults to 10".  SearchParamSource then does not pass the key at all, the runner's `size` is None
     (it neither defaults to 10 nor looks at body["size"]).
 (b) the response carries no hits.total because the body says `"track_total_hits": false` -- which is
     exactly what the Elasticsearch reference recommends for search_after pagination ("Disable the
     tracking of total hits to speed up pagination").  The selective parse correctly finds no total
     (a full parse finds none either), `hits` stays None.

In both cases the response is a well-formed search response whose last hit has a sort value, i.e. the
cursor is well defined; expected: page 2 is requested with search_after = that sort value (and pagination
ends on a short/empty page or at `pages`).  Observed: TypeError, which driver.execute_single does not
turn into an error sample, so the whole benchmark aborts.

Only the client is faked.  Run:  cd <checkout> && PYTHONPATH=<checkout> /venv/bin/python demo.py
"""
import asyncio
import copy
import io
import json
import sys

from esrally.driver import driver, runner
from esrally.track import params, track


class FakeEs:
    def __init__(self, pages):
        self.pages = list(pages)
        self.sent_bodies = []

    def options(self, **kwargs):
        return self

    def return_raw_response(self):
        pass

    async def perform_request(self, *, method, path, params=None, body=None, headers=None):
        self.sent_bodies.append(copy.deepcopy(body))
        return io.BytesIO(json.dumps(self.pages.pop(0)).encode("utf-8"))


def page(ids, total):
    hits = {"max_score": None, "hits": [{"_index": "logs", "_id": str(i), "_score": None, "_source": {"id": i}, "sort": [i]} for i in ids]}
    if total is not None:
        hits["total"] = {"value": total, "relation": "eq"}
    return {"took": 2, "timed_out": False, "_shards": {"total": 1, "successful": 1, "skipped": 0, "failed": 0}, "hits": hits}


async def run(op_params, pages):
    source = params.SearchParamSource(track.Track(name="demo"), op_params, operation_name="demo-op")
    p = source.params()
    p.update({"operation-type": "paginated-search"})
    es = FakeEs(pages)
    try:
        _, _, meta = await driver.execute_single(runner.Query(), es, p, on_error="continue")
        return meta, es.sent_bodies, None
    except Exception as e:  # pylint: disable=broad-except
        return None, es.sent_bodies, e


async def main():
    problems = []

    # (a) results-per-page omitted: Elasticsearch's (and the documented) default page size is 10; 25 hits -> 3 pages
    op = {"index": "logs", "pages": "all", "body": {"query": {"match_all": {}}, "sort": [{"id": "asc"}]}}
    pages = [page(range(1, 11), 25), page(range(11, 21), 25), page(range(21, 26), 25)]
    meta, sent, error = await run(op, pages)
    print("(a) requests sent:", len(sent), "result:", meta, "error:", repr(error))
    if error is not None or len(sent) != 3 or sent[1].get("search_after") != [10] or sent[2].get("search_after") != [20]:
        problems.append(
            "(a) results-per-page omitted (documented default 10), 25 hits: EXPECTED 3 pages, page 2 with search_after=[10], page 3 with "
            f"search_after=[20]; OBSERVED {len(sent)} request(s) and {type(error).__name__}: {error}"
        )

    # (b) track_total_hits: false -> no hits.total in the response
    op = {
        "index": "logs",
        "pages": 2,
        "results-per-page": 2,
        "body": {"query": {"match_all": {}}, "sort": [{"id": "asc"}], "track_total_hits": False},
    }
    pages = [page([1, 2], None), page([3, 4], None)]
    meta, sent, error = await run(op, pages)
    print("(b) requests sent:", len(sent), "result:", meta, "error:", repr(error))
    if error is not None or len(sent) != 2 or sent[1].get("search_after") != [2]:
        problems.append(
            "(b) track_total_hits=false, pages=2, full first page: EXPECTED a second request with search_after=[2] (sort of the last hit); "
            f"OBSERVED {len(sent)} request(s) and {type(error).__name__}: {error}"
        )

    if problems:
        for p in problems:
            print("VIOLATION:", p)
        sys.exit(1)
    print("OK")


if __name__ == "__main__":
    asyncio.run(main())
