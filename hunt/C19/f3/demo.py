"""
C19 / f3: a bulk `delete` of a document that does not exist (item status 404, result "not_found", no
error object, top-level "errors": false -- this is the example response in the Elasticsearch bulk API
reference) is accounted differently by the two code paths, and differently by the fast path itself
depending on whether some OTHER item failed.

  response DOCS   = the reference example: index(201), delete(404 not_found), create(201), update(200); errors=false
  response DOCS+1 = the same four items plus one genuinely failed create (409, version_conflict); errors=true

                           simple_stats (fast)          detailed_stats
  DOCS                     success, 4 ok / 0 failed     FAILURE, 3 ok / 1 failed
  DOCS+1                   failure, 3 ok / 2 failed     failure, 3 ok / 2 failed

Whatever one takes "item failed" to mean, one cell is wrong: with Elasticsearch's meaning (the item has
an `error`; that is what "errors" summarises) detailed_stats misreports DOCS as failed and both paths
over-count DOCS+1 (2 instead of 1); with rally's per-item rule (status > 299) the fast path misreports
DOCS as successful.  The same delete item is a success in the first row and a failure in the second row
of the fast path.

(Same family as the already recorded `_shards.failed` disagreement, but a different predicate --
`status > 299` -- and a response that needs no partial shard failure: any bulk that deletes an absent id.)

Only es.bulk is faked.  Run:  cd <checkout> && PYTHONPATH=<checkout> /venv/bin/python demo.py
"""
import asyncio
import copy
import io
import json
import sys

from esrally.driver import runner

SH = {"total": 2, "successful": 1, "failed": 0}
DOCS = {
    "took": 30,
    "errors": False,
    "items": [
        {"index": {"_index": "test", "_id": "1", "_version": 1, "result": "created", "_shards": SH, "status": 201, "_seq_no": 0, "_primary_term": 1}},
        {"delete": {"_index": "test", "_id": "2", "_version": 1, "result": "not_found", "_shards": SH, "status": 404, "_seq_no": 1, "_primary_term": 2}},
        {"create": {"_index": "test", "_id": "3", "_version": 1, "result": "created", "_shards": SH, "status": 201, "_seq_no": 2, "_primary_term": 3}},
        {"update": {"_index": "test", "_id": "1", "_version": 2, "result": "updated", "_shards": SH, "status": 200, "_seq_no": 3, "_primary_term": 4}},
    ],
}
DOCS_PLUS_1 = copy.deepcopy(DOCS)
DOCS_PLUS_1["errors"] = True
DOCS_PLUS_1["items"].append(
    {
        "create": {
            "_index": "test",
            "_id": "3",
            "status": 409,
            "error": {"type": "version_conflict_engine_exception", "reason": "[3]: version conflict, document already exists (current version [1])", "index": "test", "shard": "0"},
        }
    }
)


class FakeEs:
    def __init__(self, response):
        self.response = response
        self.raw = False

    def return_raw_response(self):
        self.raw = True

    async def bulk(self, **kwargs):
        return io.BytesIO(json.dumps(self.response).encode("utf-8")) if self.raw else self.response


async def stats(response, detailed):
    n = len(response["items"])
    params = {"body": "{}\n{}", "action-metadata-present": True, "bulk-size": n, "unit": "docs", "detailed-results": detailed}
    r = await runner.BulkIndex()(FakeEs(response), params)
    return r["success"], r["success-count"], r["error-count"]


def full_parse(response, failed):
    n_failed = sum(1 for item in response["items"] if failed(next(iter(item.values()))))
    return n_failed == 0, len(response["items"]) - n_failed, n_failed


async def main():
    observed = {}
    for name, response in (("DOCS", DOCS), ("DOCS+1", DOCS_PLUS_1)):
        observed[name, "fast"] = await stats(response, detailed=False)
        observed[name, "detailed"] = await stats(response, detailed=True)
    for k, v in observed.items():
        print("observed", k, "(success, success-count, error-count) =", v)

    definitions = {
        "Elasticsearch's (item carries an `error`)": lambda d: "error" in d,
        "rally's per-item rule (status > 299 or _shards.failed > 0)": lambda d: d["status"] > 299 or d.get("_shards", {}).get("failed", 0) > 0,
    }
    problems = []
    if observed["DOCS", "fast"] != observed["DOCS", "detailed"]:
        problems.append(f"fast and detailed path disagree on the reference response: fast={observed['DOCS', 'fast']} detailed={observed['DOCS', 'detailed']}")
    inconsistent = []
    for dname, failed in definitions.items():
        wrong = []
        for name, response in (("DOCS", DOCS), ("DOCS+1", DOCS_PLUS_1)):
            exp = full_parse(response, failed)
            for path in ("fast", "detailed"):
                if observed[name, path] != exp:
                    wrong.append(f"{name}/{path}: expected {exp}, observed {observed[name, path]}")
        if wrong:
            inconsistent.append(f"under the definition {dname}: " + "; ".join(wrong))
    # the accounting is acceptable if it matches a full parse under at least ONE meaning of "item failed"
    if len(inconsistent) == len(definitions):
        problems.extend(inconsistent)
    if len(problems) > 0:
        for p in problems:
            print("VIOLATION:", p)
        sys.exit(1)
    print("OK")


if __name__ == "__main__":
    asyncio.run(main())
