"""
C11 / f2: an include list without any filter (--include-tasks="" or --include-tasks='[]') keeps ALL tasks instead of none.

Run as:  cd <checkout> && PYTHONPATH=<checkout> /venv/bin/python demo.py

Real code exercised: rally.create_arg_parser, rally.configure_track_params (opts.csv_to_list), loader.load_track
(TrackFileReader + TrackProcessorRegistry -> TaskFilterTrackProcessor) on a track directory written to a temp dir.
"""
import json
import os
import sys
import tempfile

from esrally import config, paths, rally
from esrally.track import loader, track

TRACK = {
    "version": 2,
    "description": "C11 f2",
    "indices": [{"name": "idx", "auto-managed": False}],
    "schedule": [
        {"name": "delete-index", "operation": {"operation-type": "delete-index"}},
        {"name": "create-index", "operation": {"operation-type": "create-index"}},
        {
            "parallel": {
                "tasks": [
                    {"name": "bulk-1", "tags": ["write"], "operation": {"name": "b1", "operation-type": "sleep", "duration": 1}},
                    {"name": "query-1", "tags": ["read"], "operation": {"name": "q1", "operation-type": "sleep", "duration": 1}},
                ]
            }
        },
        {"name": "force-merge", "operation": {"operation-type": "force-merge"}},
    ],
}


def describe(schedule):
    return [[t.name for t in e] if isinstance(e, track.Parallel) else e.name for e in schedule]


def filtered_schedule(track_dir, *cli):
    arg_parser = rally.create_arg_parser()
    args = arg_parser.parse_args(["race", f"--track-path={track_dir}", *cli])
    cfg = config.Config()
    cfg.add(config.Scope.application, "node", "rally.root", paths.rally_root())
    cfg.add(config.Scope.application, "system", "offline.mode", True)
    cfg.add(config.Scope.application, "system", "quiet.mode", True)
    rally.configure_track_params(arg_parser, args, cfg)
    t = loader.load_track(cfg)
    return describe(t.selected_challenge_or_default.schedule), cfg.opts("track", "include.tasks"), cfg.opts("track", "exclude.tasks")


def main():
    track_dir = tempfile.mkdtemp()
    with open(os.path.join(track_dir, "track.json"), "w", encoding="utf-8") as f:
        json.dump(TRACK, f)

    everything = ["delete-index", "create-index", ["bulk-1", "query-1"], "force-merge"]
    cases = [
        # cli, expected schedule
        ([], everything),
        (["--include-tasks=tag:read"], [["query-1"]]),
        (["--include-tasks=no-such-task"], []),
        (["--exclude-tasks="], everything),  # nothing excluded
        (["--include-tasks="], []),  # nothing included
        (["--include-tasks=[]"], []),  # documented JSON array form of the same list
    ]
    problems = []
    for cli, expected in cases:
        observed, inc, exc = filtered_schedule(track_dir, *cli)
        ok = observed == expected
        print(f"{'ok  ' if ok else 'FAIL'} {' '.join(cli) or '(no filter)':<32} include.tasks={inc!r:<18} exclude.tasks={exc!r:<6} -> {observed}")
        if not ok:
            problems.append(
                f"{cli[0]!r}: EXPECTED exactly the tasks matching at least one of the given include filters to remain, i.e. "
                f"{expected} (there is no filter, so no task matches; same result as --include-tasks=no-such-task). "
                f"OBSERVED {observed}: every task is kept and would be run, including delete-index/create-index."
            )
    if problems:
        print("\nFAIL")
        for p in problems:
            print(" * " + p)
        sys.exit(1)
    print("\nOK")


if __name__ == "__main__":
    main()
