"""
C05 / f3: a task that specifies "iterations" together with "time-period" (or "warmup-iterations" together with
"warmup-time-period") is accepted by the track loader and silently executed as a time-based task; "iterations" is ignored.

The loader rejects the two other mixed combinations (warmup-iterations + time-period, warmup-time-period + iterations)
with "mixing time periods and iterations is not allowed", so the input is not meant to be legal - but there is no error,
and the request count follows neither specification.

Runs the real track loader (TrackSpecificationReader incl. JSON schema validation), schedule_for /
requires_time_period_schedule / ScheduleHandle / AsyncExecutor on a virtual clock. Fakes: Elasticsearch client, runner
(each request "takes" 0.5 s of virtual time).
"""
import asyncio
import heapq
import logging
import sys
import threading
import time as real_time

from esrally import exceptions, track
from esrally.client.context import RequestContextHolder
from esrally.driver import driver, runner
from esrally.track import loader
from esrally.utils import io

logging.disable(logging.CRITICAL)
MAX_REQUESTS = 500


class VirtualTimeLoop(asyncio.SelectorEventLoop):
    """An event loop that never blocks: if nothing is ready, time jumps to the next scheduled timer."""

    def __init__(self):
        super().__init__()
        self.now = 1000.0

    def time(self):
        return self.now

    def _run_once(self):
        while self._scheduled and self._scheduled[0]._cancelled:
            handle = heapq.heappop(self._scheduled)
            handle._scheduled = False
            self._timer_cancelled_count -= 1
        if not self._ready and self._scheduled and self._scheduled[0]._when > self.now:
            self.now = self._scheduled[0]._when
        super()._run_once()


class VirtualTime:
    def __init__(self, loop):
        self.loop = loop

    def perf_counter(self):
        return self.loop.time()

    def time(self):
        return 1.7e9 + self.loop.time()

    def __getattr__(self, item):
        return getattr(real_time, item)


class FakeEs(RequestContextHolder):
    pass


class TooManyRequests(Exception):
    pass


class SlowRunner:
    def __init__(self):
        self.calls = 0
        self.loop = None

    async def __call__(self, es, params):
        self.calls += 1
        if self.calls > MAX_REQUESTS:
            raise TooManyRequests()
        es.update_request_start(self.loop.time())
        await asyncio.sleep(0.5)
        es.update_request_end(self.loop.time())
        return {"weight": 1, "unit": "ops"}

    def __repr__(self):
        return "slow-runner"


def load(task_spec):
    spec = {
        "description": "unittest track",
        "indices": [{"name": "test-index", "auto-managed": False}],
        "operations": [{"name": "query", "operation-type": "c05-f3-op"}],
        "challenges": [{"name": "default", "default": True, "schedule": [task_spec]}],
    }
    reader = loader.TrackSpecificationReader(source=io.DictStringFileSourceFactory({}))
    return reader("unittest", spec, "/mappings")


def execute(t):
    task = list(t.challenges[0].schedule[0])[0]
    loop = VirtualTimeLoop()
    asyncio.set_event_loop(loop)
    driver.time = VirtualTime(loop)
    rec = SlowRunner()
    rec.loop = loop
    # (re-)registering simply replaces the runner of the previous case
    runner.register_runner("c05-f3-op", rec, async_runner=True)
    param_source = track.operation_parameters(t, task)
    allocation = driver.TaskAllocation(task, client_index_in_task=0, global_client_index=0, total_clients=1)
    schedule = driver.schedule_for(allocation, param_source)
    sampler = driver.Sampler(start_timestamp=loop.time(), buffer_size=100000)
    executor = driver.AsyncExecutor(0, task, schedule, {"default": FakeEs()}, sampler, threading.Event(), threading.Event(), "continue")
    endless = False
    try:
        loop.run_until_complete(executor())
    except exceptions.RallyError as e:
        if "TooManyRequests" in repr(e) or rec.calls > MAX_REQUESTS:
            endless = True
        else:
            raise
    finally:
        loop.close()
        driver.time = real_time
    samples = sampler.samples
    return type(schedule.task_progress_control).__name__, min(rec.calls, MAX_REQUESTS), endless, [s.sample_type.name for s in samples]


def main():
    failures = []
    for spec, expected_requests in [
        ({"operation": "query", "iterations": 5, "time-period": 10}, 5),
        ({"operation": "query", "warmup-iterations": 5, "warmup-time-period": 10}, 6),
        ({"parallel": {"time-period": 10, "tasks": [{"operation": "query", "iterations": 5}]}}, 5),
    ]:
        try:
            t = load(spec)
        except loader.TrackSyntaxError as e:
            print(f"{spec}: rejected: {e}")
            continue
        control, calls, endless, types = execute(t)
        observed = f"still running after {MAX_REQUESTS} requests ({MAX_REQUESTS * 0.5:.0f} s)" if endless else f"{calls} requests"
        print(f"{spec}: accepted, loop control {control}, {observed}, {types.count('Warmup')} warm-up / {types.count('Normal')} measurement samples")
        failures.append(
            f"{spec}: expected either a TrackSyntaxError ('mixing time periods and iterations is not allowed', as for "
            f"warmup-iterations + time-period) or an iteration-based task with exactly {expected_requests} requests; "
            f"observed: track accepted, {control} schedule, {observed}"
        )

    # the sibling combinations are rejected
    for spec in [
        {"operation": "query", "warmup-iterations": 5, "time-period": 10},
        {"operation": "query", "warmup-time-period": 5, "iterations": 10},
    ]:
        try:
            load(spec)
            print(f"{spec}: accepted")
        except loader.TrackSyntaxError as e:
            print(f"{spec}: rejected ({str(e)[-60:]})")

    if failures:
        print("\nFAIL:")
        for f in failures:
            print("  - " + f)
        return 1
    print("OK")
    return 0


if __name__ == "__main__":
    sys.exit(main())
