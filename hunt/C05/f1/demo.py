"""
C05 / f1: after its ramp-up delay a throttled client fires a catch-up burst instead of pacing its requests.

Runs the real esrally.driver.driver.schedule_for / ScheduleHandle / AsyncExecutor and the real
esrally.driver.scheduler code on a virtual clock (an asyncio event loop whose time jumps to the next timer instead
of sleeping; driver.time.perf_counter() reads that loop time). Only the Elasticsearch client (a bare
RequestContextHolder) and the runner (records the issue time, "takes" 1 ms) are fakes.

Task: 4 clients, target-throughput 40 ops/s (=> every client must issue one request every 1*4/40 = 0.1 s),
ramp-up-time-period 2 s, warmup-time-period 2 s, time-period 1 s, deterministic schedule.
"""
import asyncio
import heapq
import logging
import sys
import threading
import time as real_time

from esrally import metrics, track
from esrally.client.context import RequestContextHolder
from esrally.driver import driver, runner
from esrally.track import params as track_params

logging.disable(logging.CRITICAL)


class VirtualTimeLoop(asyncio.SelectorEventLoop):
    """An event loop that never blocks: if nothing is ready, time jumps to the next scheduled timer."""

    def __init__(self):
        super().__init__()
        self.now = 1000.0

    def time(self):
        return self.now

    def _run_once(self):
        while self._scheduled and self._scheduled[0]._cancelled:
            handle = heapq.heappop(self._scheduled)
            handle._scheduled = False
            self._timer_cancelled_count -= 1
        if not self._ready and self._scheduled and self._scheduled[0]._when > self.now:
            self.now = self._scheduled[0]._when
        super()._run_once()


class VirtualTime:
    def __init__(self, loop):
        self.loop = loop

    def perf_counter(self):
        return self.loop.time()

    def time(self):
        return 1.7e9 + self.loop.time()

    def __getattr__(self, item):
        return getattr(real_time, item)


class FakeEs(RequestContextHolder):
    pass


class RecordingRunner:
    def __init__(self, loop, service_time):
        self.loop = loop
        self.service_time = service_time
        self.issued = {}

    async def __call__(self, es, params):
        self.issued.setdefault(params["client"], []).append(self.loop.time())
        es.update_request_start(self.loop.time())
        await asyncio.sleep(self.service_time)
        es.update_request_end(self.loop.time())
        return {"weight": 1, "unit": "ops"}

    def __repr__(self):
        return "recording-runner"


class PerClientParamSource:
    def __init__(self, track, params, **kwargs):
        self.infinite = True
        self.client = None

    def partition(self, partition_index, total_partitions):
        p = PerClientParamSource(None, None)
        p.client = partition_index
        return p

    def params(self):
        return {"client": self.client}


def main():
    clients, target_throughput, ramp_up, warmup, period, service_time = 4, 40, 2.0, 2.0, 1.0, 0.001
    interval = 1 * clients / target_throughput  # weight * C / T

    loop = VirtualTimeLoop()
    asyncio.set_event_loop(loop)
    driver.time = VirtualTime(loop)
    rec = RecordingRunner(loop, service_time)
    runner.register_runner("c05-f1-op", rec, async_runner=True)
    track_params.register_param_source_for_name("c05-f1-source", PerClientParamSource)

    task = track.Task(
        "throttled-search",
        track.Operation("throttled-search", "c05-f1-op", params={}, param_source="c05-f1-source"),
        warmup_time_period=warmup,
        time_period=period,
        ramp_up_time_period=ramp_up,
        clients=clients,
        params={"target-throughput": target_throughput},
    )
    param_source = track.operation_parameters(track.Track(name="t", description=""), task)
    sampler = driver.Sampler(start_timestamp=loop.time(), buffer_size=100000)
    cancel, complete = threading.Event(), threading.Event()

    async def run_all():
        executors = []
        for i in range(clients):
            allocation = driver.TaskAllocation(task, client_index_in_task=i, global_client_index=i, total_clients=clients)
            schedule = driver.schedule_for(allocation, param_source)
            executors.append(driver.AsyncExecutor(i, task, schedule, {"default": FakeEs()}, sampler, cancel, complete, "continue")())
        await asyncio.gather(*executors)

    t0 = loop.time()
    try:
        loop.run_until_complete(run_all())
    finally:
        loop.close()
        driver.time = real_time

    samples = sampler.samples
    failures = []
    for i in range(clients):
        issued = [t - t0 for t in rec.issued[i]]
        delay = ramp_up * i / clients
        gaps = [b - a for a, b in zip(issued, issued[1:])]
        too_short = [g for g in gaps if g < 0.5 * interval]
        latencies = [s.latency for s in samples if s.client_id == i]
        print(
            f"client {i}: ramp-up delay {delay:.2f}s, first request at {issued[0]:.3f}s, {len(issued)} requests, "
            f"{len(too_short)} gaps shorter than {interval / 2}s (min gap {min(gaps):.4f}s), max latency {max(latencies):.3f}s"
        )
        if abs(issued[0] - delay) > 1e-6:
            failures.append(f"client {i} started at {issued[0]} instead of {delay}")
        if too_short:
            burst = 1 + len(too_short)
            failures.append(
                f"client {i}: expected consecutive requests {interval}s apart (target-throughput {target_throughput} ops/s, "
                f"{clients} clients) once it has started at {delay:.2f}s, observed a burst of {burst} requests within "
                f"{issued[burst - 1] - issued[0]:.3f}s ({burst / max(issued[burst - 1] - issued[0], 1e-9):.0f} requests/s "
                f"instead of {1 / interval:.0f}/s) and a reported latency of up to {max(latencies):.2f}s for a {service_time}s request"
            )
    if failures:
        print("\nFAIL: ramp-up does not delay the client's schedule, only its first request:")
        for f in failures:
            print("  - " + f)
        return 1
    print("OK: every client paces its requests after its ramp-up delay")
    return 0


if __name__ == "__main__":
    sys.exit(main())
