"""
C06 / f4: a worker loses the samples that its load generator adds between the moment the worker drains the sampler
(Worker.send_samples) and the moment it notices that the load generator has finished (executor_future.done()), whenever the next
entry of its schedule is *not* a join point - i.e. in the documented "parallel element with fewer clients than tasks" case
(docs/track.rst: "Rally will first run match-all and term concurrently ... After they have finished, Rally will run phrase"),
where Worker.drive() simply replaces self.sampler by a new Sampler. The operations of the lost samples are counted zero times:
the task's throughput (and its latency / service time records) misses them.

Real rally code: Allocator, ClientAllocations, Worker (message handlers, drive, send_samples), AsyncIoAdapter, schedule_for,
AsyncExecutor, Sampler, SamplePostprocessor/ThroughputCalculator. Faked: the actor transport (Worker.send / wakeupAfter are
overridden; the test calls the message handlers in the order thespian would) and the Elasticsearch client.
The interleaving that is forced here: sending the drained samples to the driver takes as long as the load generator needs to
finish its last (already running) request and to shut down - a few milliseconds in reality.

Run:  cd <checkout> && PYTHONPATH=<checkout> /venv/bin/python demo.py
"""
import asyncio
import collections
import datetime
import sys
import threading
import time

from esrally import client, config, log, metrics, track
from esrally.client.context import RequestContextHolder
from esrally.driver import driver, runner
from esrally.track import params

ITERATIONS = {"task-a": 5, "task-b": 3}

last_request_of_task_a_may_finish = threading.Event()
last_request_of_task_a_running = threading.Event()


class FakeEs(RequestContextHolder):
    async def close(self):
        pass


class FakeEsClientFactory:
    def __init__(self, *args, **kwargs):
        pass

    def create_async(self, *args, **kwargs):
        return FakeEs()


class CountingRunner:
    """issues one 'request' per call; the last request of task-a is still in flight when the worker's wake-up timer fires"""

    def __init__(self):
        self.calls = collections.Counter()

    async def __aenter__(self):
        return self

    async def __aexit__(self, exc_type, exc_val, exc_tb):
        return False

    async def __call__(self, es, params):
        name = params["name"]
        self.calls[name] += 1
        es["default"].on_request_start() if isinstance(es, dict) else es.on_request_start()
        try:
            if name == "task-a" and self.calls[name] == ITERATIONS[name]:
                last_request_of_task_a_running.set()
                while not last_request_of_task_a_may_finish.is_set():
                    await asyncio.sleep(0.005)
            else:
                await asyncio.sleep(0.01)
        finally:
            es["default"].on_request_end() if isinstance(es, dict) else es.on_request_end()
        return 1, "ops"


class ParamSource(params.ParamSource):
    def params(self):
        return dict(self._params)


class TestableWorker(driver.Worker):
    """the real worker; only the two calls into the actor system are replaced"""

    def __init__(self):
        super().__init__()
        self.sent = []
        self.wakeups = 0

    def send(self, target, msg):  # pylint: disable=arguments-differ
        self.sent.append(msg)
        if isinstance(msg, driver.UpdateSamples) and last_request_of_task_a_running.is_set() and not last_request_of_task_a_may_finish.is_set():
            # Transmitting the samples takes a moment. Meanwhile the load generator completes its last request and terminates.
            last_request_of_task_a_may_finish.set()
            deadline = time.perf_counter() + 10
            while not self.executor_future.done() and time.perf_counter() < deadline:
                time.sleep(0.005)

    def wakeupAfter(self, period, payload=None):  # pylint: disable=arguments-differ
        self.wakeups += 1


def main():
    runner.register_default_runners()
    runner.register_runner("c06-f4-op", CountingRunner(), async_runner=True)
    params.register_param_source_for_name("c06-f4-param-source", ParamSource)
    client.EsClientFactory = FakeEsClientFactory
    # there is no ~/.rally/logging.json in this environment; actors would re-read it in their constructor
    log.post_configure_actor_logging = lambda: None

    def task(name):
        return track.Task(
            name,
            track.Operation(name, "c06-f4-op", params={"name": name}, param_source="c06-f4-param-source"),
            iterations=ITERATIONS[name],
            clients=1,
        )

    # two tasks but only one client: rally runs them one after the other between the same two join points
    schedule = [track.Parallel([task("task-a"), task("task-b")], clients=1)]
    t = track.Track(name="unittest", challenges=[track.Challenge("default", default=True, schedule=schedule)])
    allocator = driver.Allocator(schedule)
    assert allocator.clients == 1 and len(allocator.allocations[0]) == 4  # join point, task-a, task-b, join point
    client_allocations = driver.ClientAllocations()
    client_allocations.add(0, allocator.allocations[0])

    cfg = config.Config()
    cfg.add(config.Scope.application, "system", "env.name", "unittest")
    cfg.add(config.Scope.application, "track", "params", {})
    cfg.add(config.Scope.application, "track", "test.mode.enabled", False)
    cfg.add(config.Scope.application, "driver", "on.error", "continue")
    cfg.add(config.Scope.application, "driver", "profiling", False)
    cfg.add(config.Scope.application, "driver", "assertions", False)
    cfg.add(config.Scope.application, "client", "hosts", collections.namedtuple("Hosts", "all_hosts")({"default": [{"host": "localhost", "port": 9200}]}))
    cfg.add(config.Scope.application, "client", "options", {"default": {}})
    cfg.add(config.Scope.application, "benchmarks", "local.dataset.cache", "/tmp")

    w = TestableWorker()
    w.driver_actor = "driver"
    w.worker_id = 0
    w.config = cfg
    w.receiveMsg_StartWorker(driver.StartWorker(0, cfg, t, client_allocations, {0: driver.ClientContext(client_id=0, parent_worker_id=0)}), "driver")
    assert isinstance(w.sent[-1], driver.JoinPointReached), w.sent
    # the driver tells the worker to go on
    w.receiveMsg_Drive(driver.Drive(time.perf_counter()), "driver")
    w.receiveMsg_WakeupMessage(None, w)  # -> drive(): starts task-a
    assert w.executor_future is not None
    # the worker's periodic wake-up fires while the last request of task-a is in flight
    assert last_request_of_task_a_running.wait(10)
    w.receiveMsg_WakeupMessage(None, w)
    # further periodic wake-ups until the worker reaches the next join point
    deadline = time.perf_counter() + 20
    while not isinstance(w.sent[-1], driver.JoinPointReached) or len([m for m in w.sent if isinstance(m, driver.JoinPointReached)]) < 2:
        assert time.perf_counter() < deadline, "worker did not reach the join point"
        time.sleep(0.05)
        w.receiveMsg_WakeupMessage(None, w)
    w.pool.shutdown()

    failures = [m for m in w.sent if not isinstance(m, (driver.UpdateSamples, driver.JoinPointReached))]
    assert not failures, [getattr(f, "message", f) for f in failures]
    received = [s for m in w.sent if isinstance(m, driver.UpdateSamples) for s in m.samples]
    per_task = collections.Counter(s.task.name for s in received)
    print(f"requests executed by the load generator: {dict(ITERATIONS)}")
    print(f"samples that reached the driver        : {dict(per_task)}")

    # what the driver makes of it
    store_cfg = config.Config()
    store_cfg.add(config.Scope.application, "system", "env.name", "unittest")
    store_cfg.add(config.Scope.application, "track", "params", {})
    store = metrics.InMemoryMetricsStore(store_cfg)
    store.open("race-id", datetime.datetime(2024, 1, 1), "unittest", "default", "defaults", create=True)
    pp = driver.SamplePostprocessor(store, downsample_factor=1, track_meta_data={}, challenge_meta_data={})
    pp(received)
    counted = {name: stats.total_count for name, stats in ((k.name, v) for k, v in pp.throughput_calculator.task_stats.items())}
    print(f"operations counted for the throughput  : {counted}")

    problems = []
    for name, expected in ITERATIONS.items():
        if per_task[name] != expected:
            problems.append(f"{name}: the load generator completed {expected} operations but only {per_task[name]} samples reached the driver")
        if counted.get(name) != expected:
            problems.append(f"{name}: expected {expected} operations in the task's throughput but {counted.get(name)} were counted")
    if problems:
        print("\nVIOLATION of C06 (every operation is counted exactly once):")
        for p in problems:
            print("  - " + p)
        sys.exit(1)
    print("OK: every operation counted exactly once")


if __name__ == "__main__":
    main()
