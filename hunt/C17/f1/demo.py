"""
C17 / f1: a bulk request that is only PARTLY rejected (per-item HTTP 429) makes
metrics.EsClient.guarded() re-send the WHOLE batch, including the items that Elasticsearch
already acknowledged with 201 Created. As metrics documents carry no _id, every re-sent
document is stored a second time -> duplicated samples in the metrics store.

Everything is real (EsMetricsStore, metrics.EsClientFactory, metrics.EsClient.guarded, rally's
RallySyncElasticsearch, elastic_transport.Transport, elasticsearch.helpers.bulk) except:
  * the HTTP node's perform_request() (a ~60 line in-memory "Elasticsearch" below), and
  * esrally.time.sleep (so that the back-off does not take real time).

Run:  cd <checkout> && PYTHONPATH=<checkout> /venv/bin/python demo.py
"""
import collections
import datetime
import json
import os
import sys
import warnings

warnings.simplefilter("ignore")

import elastic_transport  # noqa: E402

import esrally  # noqa: E402
from esrally import config, metrics  # noqa: E402
from esrally import time as rally_time  # noqa: E402


class FakeElasticsearch:
    """Answers the handful of REST calls that the metrics store issues. Bulk faults are scripted."""

    def __init__(self):
        self.indices = collections.defaultdict(dict)  # index name -> {_id: _source}; indexing an existing _id overwrites
        self.templates = {}
        self.bulk_requests = []  # number of items of every bulk request that was received
        # one entry per bulk request: a function(position, source) -> status code for that item
        self.bulk_script = []
        # one entry per bulk request: HTTP status for the *whole* request (None -> per item handling)
        self.bulk_http_status_script = []
        self.auto_id = 0

    def __call__(self, node, method, target, body=None, headers=None, request_timeout=None):
        path = target.split("?")[0]
        status, payload = self.handle(method, path, body)
        meta = elastic_transport.ApiResponseMeta(
            status=status,
            http_version="1.1",
            headers=elastic_transport.HttpHeaders({"content-type": "application/json", "x-elastic-product": "Elasticsearch"}),
            duration=0.0,
            node=node.config,
        )
        raw = b"" if method == "HEAD" else json.dumps(payload).encode("utf-8")
        return elastic_transport._node._base.NodeApiResponse(meta, raw)

    def handle(self, method, path, body):
        if path == "/":
            return 200, {"version": {"number": "8.6.1", "build_flavor": "default"}, "tagline": "You Know, for Search"}
        if path.startswith("/_index_template/"):
            name = path.split("/")[-1]
            if method == "HEAD":
                return (200 if name in self.templates else 404), {}
            if method == "PUT":
                self.templates[name] = json.loads(body)
                return 200, {"acknowledged": True}
        if path == "/_bulk" or path.endswith("/_bulk"):
            return self.bulk(path, body)
        if path.endswith("/_refresh"):
            return 200, {"_shards": {"total": 1, "successful": 1, "failed": 0}}
        index = path.strip("/")
        if method == "HEAD":
            return (200 if index in self.indices else 404), {}
        if method == "PUT":
            self.indices[index]  # pylint: disable=pointless-statement
            return 200, {"acknowledged": True, "index": index}
        raise AssertionError(f"fake Elasticsearch: unexpected request {method} {path}")

    def bulk(self, path, body):
        default_index = path.strip("/").split("/")[0] if path != "/_bulk" else None
        lines = [json.loads(line) for line in body.decode("utf-8").splitlines() if line.strip()]
        pairs = list(zip(lines[0::2], lines[1::2]))
        request_no = len(self.bulk_requests)
        self.bulk_requests.append(len(pairs))
        http_status = self.bulk_http_status_script[request_no] if request_no < len(self.bulk_http_status_script) else None
        if http_status is not None:
            return http_status, {"error": {"type": "es_rejected_execution_exception", "reason": "queue full"}, "status": http_status}
        item_status = self.bulk_script[request_no] if request_no < len(self.bulk_script) else (lambda pos, src: 201)
        items = []
        for pos, (action, source) in enumerate(pairs):
            index = action["index"].get("_index", default_index)
            status = item_status(pos, source)
            if status == 201:
                self.auto_id += 1
                # like Elasticsearch: no _id given -> a fresh one is generated -> a re-sent document is a NEW document
                doc_id = action["index"].get("_id", f"auto-{self.auto_id}")
                result = "updated" if doc_id in self.indices[index] else "created"
                self.indices[index][doc_id] = source
                items.append({"index": {"_index": index, "_id": doc_id, "status": 201, "result": result}})
            else:
                items.append(
                    {
                        "index": {
                            "_index": index,
                            "_id": None,
                            "status": status,
                            "error": {"type": "es_rejected_execution_exception", "reason": "rejected execution of coordinating operation"},
                        }
                    }
                )
        return 200, {"took": 1, "errors": any(i["index"]["status"] != 201 for i in items), "items": items}


def new_store(fake):
    root = os.path.dirname(esrally.__file__)
    cfg = config.Config()
    cfg.add(config.Scope.application, "system", "env.name", "demo")
    cfg.add(config.Scope.application, "node", "rally.root", root)
    cfg.add(config.Scope.application, "track", "params", {})
    cfg.add(config.Scope.application, "reporting", "datastore.host", "metrics.invalid")
    cfg.add(config.Scope.application, "reporting", "datastore.port", 9200)
    cfg.add(config.Scope.application, "reporting", "datastore.secure", False)
    cfg.add(config.Scope.application, "reporting", "datastore.user", "")
    cfg.add(config.Scope.application, "reporting", "datastore.password", "")
    # documented switch (docs/configuration.rst); avoids the unguarded version probe in the constructor
    cfg.add(config.Scope.application, "reporting", "datastore.probe.cluster_version", False)

    store = metrics.EsMetricsStore(cfg)  # real EsClientFactory -> real RallySyncElasticsearch
    es = store._client._client
    for node in es.transport.node_pool.all():
        node.perform_request = lambda method, target, body=None, headers=None, request_timeout=None, _n=node: fake(
            _n, method, target, body, headers, request_timeout
        )
    store.open(
        race_id="6ebc6e53-ee20-4b0c-99b4-09697987e9f4",
        race_timestamp=datetime.datetime(2026, 1, 31),
        track_name="demo-track",
        challenge_name="demo-challenge",
        car_name="defaults",
        create=True,
    )
    return store


def scenario_partial_rejection():
    """3 samples in one bulk request; Elasticsearch accepts #0 and #2 and rejects #1 with a per-item 429; 2nd attempt is fine."""
    fake = FakeElasticsearch()
    store = new_store(fake)
    fake.bulk_script = [lambda pos, src: 429 if pos == 1 else 201]
    for v in (100, 200, 300):
        store.put_value_cluster_level("service_time", v, unit="ms", task="index", operation="index", operation_type="bulk")
    store.flush()
    stored = [d["value"] for d in fake.indices["rally-metrics-2026-01"].values() if d.get("name") == "service_time"]
    return fake.bulk_requests, sorted(stored)


def scenario_second_chunk_rejected():
    """5001 samples = two bulk chunks (chunk_size=5000). Chunk 1 is fully indexed; chunk 2 gets HTTP 429 for the whole request
    (four times, as elastic_transport itself re-sends three times without pause), then everything works."""
    fake = FakeElasticsearch()
    store = new_store(fake)
    fake.bulk_http_status_script = [None, 429, 429, 429, 429]
    for v in range(5001):
        store.put_value_cluster_level("latency", v, unit="ms", task="search", operation="search", operation_type="search")
    store.flush()
    stored = [d["value"] for d in fake.indices["rally-metrics-2026-01"].values() if d.get("name") == "latency"]
    return fake.bulk_requests, stored


def main():
    sleeps = []
    rally_time.sleep = sleeps.append  # metrics.guarded() calls esrally.time.sleep

    failures = []

    requests, stored = scenario_partial_rejection()
    print(f"[A] bulk requests (items per request): {requests}; guarded() pauses: {[round(s, 1) for s in sleeps]}")
    print(f"[A] service_time samples in the metrics store: {stored}")
    if stored != [100, 200, 300]:
        failures.append(
            "[A] EXPECTED the store to hold each of the 3 recorded samples exactly once ([100, 200, 300]): the items that were "
            "acknowledged with 201 in the first attempt must not be sent again, only the item rejected with 429 is to be retried.\n"
            f"    OBSERVED {stored}: guarded() re-sent the complete batch {requests}, so the two samples that had already been "
            "indexed successfully are stored twice."
        )

    del sleeps[:]
    requests, stored = scenario_second_chunk_rejected()
    dup = len(stored) - len(set(stored))
    print(f"[B] bulk requests (items per request): {requests}; guarded() pauses: {[round(s, 1) for s in sleeps]}")
    print(f"[B] latency samples in the metrics store: {len(stored)} ({dup} duplicates)")
    if len(stored) != 5001:
        failures.append(
            "[B] EXPECTED 5001 latency samples in the store (the first chunk of 5000 succeeded and must not be repeated).\n"
            f"    OBSERVED {len(stored)} samples, {dup} of them duplicates: after the HTTP 429 on the second chunk guarded() "
            "restarted helpers.bulk() from the first document."
        )

    if failures:
        print("\nPROPERTY C17 VIOLATED (\"... the call is not repeated after success\", per item of a bulk request):")
        for f in failures:
            print(f)
        sys.exit(1)
    print("OK: no document was indexed more than once")


if __name__ == "__main__":
    main()
