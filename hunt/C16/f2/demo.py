"""
C16 / f2: the retry of `wait-for-transform` does not re-attempt the request that failed.

`wait-for-transform` is documented as retryable and registered as Retry(WaitForTransform()). When the stop-transform request of
the first attempt dies with a connection error / timeout, Retry sleeps and calls the runner again as configured - but the runner
remembers (self._start_time, set *before* the request is sent) that it "already stopped" the transform and skips the request.
The second "attempt" therefore only polls the stats of a transform nobody ever asked to stop.

Real code: the registered runner chain (NoCompletion/WithCompletion -> AssertingRunner -> MultiClientRunner -> Retry ->
WaitForTransform). Fake: only the two transform API methods of the ES client, which behave like a *continuous* transform:
state stays "started" until a stop request has actually been received.

Run:  cd <checkout> && PYTHONPATH=<checkout> /venv/bin/python demo.py
"""
import asyncio
import logging
import sys

import elasticsearch

from esrally.driver import runner

logging.disable(logging.CRITICAL)


class FakeTransformApi:
    def __init__(self, stop_outcomes):
        self.stop_outcomes = list(stop_outcomes)
        self.stop_calls = 0
        self.stop_delivered = False
        self.stats_calls = 0

    async def stop_transform(self, **kwargs):
        self.stop_calls += 1
        outcome = self.stop_outcomes.pop(0) if self.stop_outcomes else None
        if outcome is not None:
            raise outcome  # the request never reached Elasticsearch
        self.stop_delivered = True
        return {"acknowledged": True}

    async def get_transform_stats(self, **kwargs):
        self.stats_calls += 1
        return {
            "transforms": [
                {
                    "id": kwargs["transform_id"],
                    "state": "stopped" if self.stop_delivered else "started",
                    "stats": {"documents_processed": 10, "search_time_in_ms": 1, "processing_time_in_ms": 1, "index_time_in_ms": 1},
                }
            ]
        }


class FakeEs:
    def __init__(self, stop_outcomes):
        self.transform = FakeTransformApi(stop_outcomes)


async def run_once(first_failure):
    # fresh runner instances, as in a freshly started load-driver worker
    runner.register_default_runners()
    r = runner.runner_for("wait-for-transform")
    es = FakeEs([first_failure])
    params = {
        "operation-type": "wait-for-transform",
        "transform-id": "t1",
        "retries": 2,
        "retry-wait-period": 0.01,
        "retry-on-timeout": True,
        # keep the demo short: the default is one hour
        "transform-timeout": 1.5,
        "poll-interval": 0.02,
    }
    try:
        async with r:
            outcome = await r({"default": es}, params)
    except Exception as e:  # pylint: disable=broad-except
        outcome = f"raised {type(e).__name__}: {e}"
    return es.transform, outcome


async def main():
    problems = []
    for failure in (
        elasticsearch.ConnectionError("Connection refused"),
        elasticsearch.ConnectionTimeout("timed out"),
    ):
        api, outcome = await run_once(failure)
        print(f"--- first stop-transform request fails with {type(failure).__name__}; retries=2, retry-on-timeout=true")
        print(f"    stop_transform calls     : {api.stop_calls} (delivered to Elasticsearch: {api.stop_delivered})")
        print(f"    get_transform_stats calls: {api.stats_calls}")
        print(f"    outcome                  : {outcome}")
        if api.stop_calls < 2 or not api.stop_delivered:
            problems.append(
                f"{type(failure).__name__}: expected the retry to re-send the failed stop-transform request (2 calls, the second one "
                f"succeeds, operation returns success); observed {api.stop_calls} call(s), none delivered, the retried attempt only "
                f"polled the stats {api.stats_calls} times and ended with: {outcome}"
            )

    if problems:
        print()
        print("PROPERTY C16 VIOLATED (a retryable operation is re-attempted after a connection error / timeout):")
        for p in problems:
            print("  * " + p)
        sys.exit(1)
    print("OK: the failed request was re-sent by the retry")


if __name__ == "__main__":
    asyncio.run(main())
