"""
C16 / f1: a retryable operation is re-sent behind Retry's back by the HTTP transport of the load-driver client.

Everything is real: EsClientFactory.create_async() -> RallyAsyncElasticsearch -> RallyAsyncTransport ->
RallyAiohttpHttpNode -> TCP on loopback; the registered runner chain for `create-index`
(NoCompletion -> AssertingRunner -> MultiClientRunner -> Retry -> CreateIndex); the real CreateIndexParamSource.
The only fake is "Elasticsearch": a tiny aiohttp server on 127.0.0.1 that counts the requests it receives.

Run:  cd <checkout> && PYTHONPATH=<checkout> /venv/bin/python demo.py
"""
import asyncio
import logging
import sys
import time

from aiohttp import web

from esrally import track
from esrally.client.factory import EsClientFactory
from esrally.driver import runner
from esrally.track import params as track_params

logging.disable(logging.CRITICAL)


class FakeEs:
    """Counts requests; answers according to self.mode."""

    def __init__(self):
        self.mode = "ok"
        self.hits = []

    async def handle(self, request):
        self.hits.append((time.monotonic(), request.method, request.path))
        if self.mode == "503":
            return web.json_response({"error": {"type": "master_not_discovered_exception"}, "status": 503}, status=503)
        if self.mode == "429":
            return web.json_response({"error": {"type": "es_rejected_execution_exception"}, "status": 429}, status=429)
        return web.json_response({"acknowledged": True})


async def run_task(es, op_type, task_params):
    """What the load driver does for one iteration of a task (driver.AsyncExecutor / execute_single)."""
    t = track.Track(name="demo")
    source = track_params.param_source_for_operation(op_type, t, task_params, "demo-task")
    p = source.partition(0, 1).params()
    r = runner.runner_for(op_type)
    with es.new_request_context():
        async with r:
            return await r({"default": es}, p)


async def main():
    fake = FakeEs()
    app = web.Application()
    app.router.add_route("*", "/{tail:.*}", fake.handle)
    app_runner = web.AppRunner(app)
    await app_runner.setup()
    site = web.TCPSite(app_runner, "127.0.0.1", 0)
    await site.start()
    port = site._server.sockets[0].getsockname()[1]

    # exactly how the load driver builds its client when the user passes no special --client-options
    es = EsClientFactory(hosts=[{"host": "127.0.0.1", "port": port}], client_options={}, distribution_version="8.6.1").create_async(
        client_id=0
    )
    runner.register_default_runners()

    problems = []

    async def scenario(title, mode, task_params, expected_requests):
        fake.mode = mode
        fake.hits.clear()
        try:
            outcome = await run_task(es, "create-index", dict(task_params))
        except Exception as e:  # pylint: disable=broad-except
            outcome = f"raised {type(e).__name__}: {e}"
        n = len(fake.hits)
        gaps = [round(b[0] - a[0], 4) for a, b in zip(fake.hits, fake.hits[1:])]
        print(f"--- {title}")
        print(f"    task parameters : {task_params}")
        print(f"    outcome         : {outcome}")
        print(f"    HTTP requests   : {n} {[(m, p) for _, m, p in fake.hits]}")
        print(f"    gaps between them (s): {gaps}")
        if n != expected_requests:
            problems.append(
                f"{title}: expected exactly {expected_requests} request(s) to reach Elasticsearch, observed {n} "
                f"(gaps {gaps}s, configured retry-wait-period {task_params.get('retry-wait-period', 0.5)}s)"
            )

    base = {"operation-type": "create-index", "index": "idx", "body": {}}

    # sanity: a healthy cluster sees the request once
    await scenario("S0 healthy, retries=0", "ok", {**base}, 1)

    # 1. retries defaults to 0 -> "attempted at most retries + 1 = 1 times"; 503 is a non-retryable API error that must
    #    be propagated immediately.
    await scenario("S1 HTTP 503, retries=0 (default)", "503", {**base}, 1)

    # 2. Same with everything switched off explicitly.
    await scenario(
        "S2 HTTP 429, retries=0, retry-on-timeout=false, retry-on-error=false",
        "429",
        {**base, "retries": 0, "retry-on-timeout": False, "retry-on-error": False},
        1,
    )

    # 3. retries=2, wait period 1s: Retry itself (correctly) does not retry a 503, so still exactly one request is expected.
    #    Whatever is re-sent is also not spaced by retry-wait-period.
    await scenario("S3 HTTP 503, retries=2, retry-wait-period=1", "503", {**base, "retries": 2, "retry-wait-period": 1}, 1)

    await es.close()
    await app_runner.cleanup()

    # 4./5. connection errors: nothing listens on the port any more (the fake server has just been shut down). The sends are
    #       counted by a call-through spy on the real node class (nothing is faked, the TCP connect really is refused).
    from esrally.client.asynchronous import RallyAiohttpHttpNode

    sends = []
    real_perform_request = RallyAiohttpHttpNode.perform_request

    async def spy(self, *args, **kwargs):
        sends.append(time.monotonic())
        return await real_perform_request(self, *args, **kwargs)

    RallyAiohttpHttpNode.perform_request = spy
    es = EsClientFactory(hosts=[{"host": "127.0.0.1", "port": port}], client_options={}, distribution_version="8.6.1").create_async(
        client_id=0
    )

    async def refused(title, task_params, expected_sends):
        sends.clear()
        try:
            outcome = await run_task(es, "create-index", dict(task_params))
        except Exception as e:  # pylint: disable=broad-except
            outcome = f"raised {type(e).__name__}"
        gaps = [round(b - a, 4) for a, b in zip(sends, sends[1:])]
        print(f"--- {title}")
        print(f"    task parameters : {task_params}")
        print(f"    outcome         : {outcome}")
        print(f"    sends by the node: {len(sends)}, gaps (s): {gaps}")
        if len(sends) != expected_sends:
            problems.append(
                f"{title}: expected exactly {expected_sends} send(s), observed {len(sends)} (gaps {gaps}s, "
                f"configured retry-wait-period {task_params.get('retry-wait-period', 0.5)}s)"
            )

    await refused(
        "S4 connection refused, retries=3 but retry-on-timeout=false (must not be retried at all)",
        {**base, "retries": 3, "retry-on-timeout": False},
        1,
    )
    await refused(
        "S5 connection refused, retries=1, retry-on-timeout=true, retry-wait-period=0.3 (at most 2 attempts, 0.3s apart)",
        {**base, "retries": 1, "retry-on-timeout": True, "retry-wait-period": 0.3},
        2,
    )
    RallyAiohttpHttpNode.perform_request = real_perform_request
    await es.close()

    if problems:
        print()
        print("PROPERTY C16 VIOLATED (attempt bound / immediate propagation of non-retryable API errors):")
        for p in problems:
            print("  * " + p)
        sys.exit(1)
    print("OK: every scenario sent the request exactly once")


if __name__ == "__main__":
    asyncio.run(main())
