"""
C15 / f1: an unrelated branch whose name starts with digits followed by "-" (e.g. the
"123-fix-typo" names GitHub generates with "Create a branch for this issue", "2024-05-cleanup",
"7-dev", "8.1-backport") makes branch selection crash with a TypeError instead of being ignored.

Run:  cd <checkout> && PYTHONPATH=<checkout> /venv/bin/python demo.py
"""
import os
import shutil
import subprocess
import sys
import tempfile

from esrally.utils import git, repo, versions

ENV = {
    **os.environ,
    "GIT_AUTHOR_NAME": "t",
    "GIT_AUTHOR_EMAIL": "t@example.org",
    "GIT_COMMITTER_NAME": "t",
    "GIT_COMMITTER_EMAIL": "t@example.org",
    "GIT_CONFIG_GLOBAL": "/dev/null",
    "GIT_CONFIG_SYSTEM": "/dev/null",
}


def sh(cwd, *args):
    subprocess.run(["git", "-C", cwd, *args], check=True, capture_output=True, env=ENV)


def make_repo(root, name, branches):
    d = os.path.join(root, name)
    os.makedirs(d)
    sh(d, "init", "-q", "-b", "master")
    with open(os.path.join(d, "marker.txt"), "w") as f:
        f.write("master")
    sh(d, "add", ".")
    sh(d, "commit", "-qm", "initial")
    for b in branches:
        sh(d, "checkout", "-q", "-b", b, "master")
        with open(os.path.join(d, "marker.txt"), "w") as f:
            f.write(b)
        sh(d, "commit", "-qam", b)
    sh(d, "checkout", "-q", "master")
    return d


failures = []

# 1. the pure function: (branches, version, documented best match)
CASES = [
    (["master", "7", "123-fix-typo"], "7.3.1", "7"),  # major branch
    (["master", "7", "7.2", "123-fix-typo"], "7.3.1", "7.2"),  # nearest prior minor
    (["master", "7", "123-fix-typo"], "8.0.0", "master"),  # newer than every versioned branch
    (["master", "7", "7-dev"], "7.3.1", "7"),
    (["master", "7", "8.1-backport"], "7.3.1", "7"),
    (["master", "7", "2024-05-cleanup"], "7.3.1", "7"),
]
for branches, version, expected in CASES:
    try:
        observed = versions.best_match(branches, version)
    except Exception as e:  # pylint: disable=broad-except
        observed = f"{type(e).__name__}: {e}"
    ok = observed == expected
    print(f"best_match({branches}, {version!r}): expected {expected!r}, observed {observed!r} -> {'ok' if ok else 'VIOLATION'}")
    if not ok:
        failures.append((branches, version, expected, observed))

# 2. end to end with a real git repository (local track repository, no remote)
root = tempfile.mkdtemp(prefix="c15-f1-")
try:
    d = make_repo(root, "private", ["7", "123-fix-typo"])
    r = repo.RallyRepository(remote_url=None, root_dir=root, repo_name="private", resource_name="tracks", offline=False)
    try:
        r.update("7.3.1")
        observed = git.current_branch(d)
    except Exception as e:  # pylint: disable=broad-except
        observed = f"{type(e).__name__}: {e}"
    ok = observed == "7"
    print(
        f"RallyRepository.update('7.3.1') on real repo with branches [master, 7, 123-fix-typo]: "
        f"expected branch '7' to be checked out, observed {observed!r} -> {'ok' if ok else 'VIOLATION'}"
    )
    if not ok:
        failures.append(("real repo", "7.3.1", "7", observed))
finally:
    shutil.rmtree(root, ignore_errors=True)

if failures:
    print(
        f"\nFAIL: {len(failures)} case(s): an unrelated branch named <digits>-<text> must be ignored and the documented best "
        f"match must be used; instead Rally crashes with a TypeError (int(None)) in versions.components(..., strict=False)."
    )
    sys.exit(1)
print("\nPASS: unrelated <digits>-<text> branches are ignored.")
