"""
C15 / f3: "esrally list tracks|cars --distribution-version=X" ignores X and always uses the master branch.

docs/track.rst ("Creating a new track repository") and docs/car.rst document:
    esrally list tracks --track-repository=private --distribution-version=7.0.0
    "Rally will follow the same branch fallback logic as described above."
The list sub-parser accepts --distribution-version, but rally.dispatch_sub_command calls
configure_mechanic_params(args, cfg, command_requires_car=False), which skips copying the option into the
config ("mechanic"/"distribution.version"). GitTrackRepository / team_path therefore call
RallyRepository.update(None) -> best_match(..., None) -> "master".

This runs the real CLI (python -m esrally.rally) with HOME pointing to a scratch directory that contains a local
track repository and a local team repository, each with branches master and 7.

Run:  cd <checkout> && PYTHONPATH=<checkout> /venv/bin/python demo.py
"""
import json
import os
import shutil
import subprocess
import sys
import tempfile

home = tempfile.mkdtemp(prefix="c15-f3-")
ENV = {
    **os.environ,
    "HOME": home,
    "GIT_AUTHOR_NAME": "t",
    "GIT_AUTHOR_EMAIL": "t@example.org",
    "GIT_COMMITTER_NAME": "t",
    "GIT_COMMITTER_EMAIL": "t@example.org",
    "GIT_CONFIG_GLOBAL": "/dev/null",
    "GIT_CONFIG_SYSTEM": "/dev/null",
}


def sh(cwd, *args):
    return subprocess.run(["git", "-C", cwd, *args], check=True, capture_output=True, text=True, env=ENV).stdout.strip()


def wipe(d):
    for x in os.listdir(d):
        if x != ".git":
            shutil.rmtree(os.path.join(d, x))


def write_track(d, name):
    wipe(d)
    os.makedirs(os.path.join(d, name))
    with open(os.path.join(d, name, "track.json"), "w") as f:
        json.dump(
            {
                "version": 2,
                "description": f"track that lives on {name}",
                "schedule": [{"operation": {"operation-type": "cluster-health", "name": "health"}}],
            },
            f,
        )
    sh(d, "add", "-A")
    sh(d, "commit", "-qm", name)


def write_car(d, name):
    wipe(d)
    os.makedirs(os.path.join(d, "cars", "v1"))
    with open(os.path.join(d, "cars", "v1", f"{name}.ini"), "w") as f:
        f.write(f"[meta]\ndescription=car that lives on {name}\ntype=car\n")
    sh(d, "add", "-A")
    sh(d, "commit", "-qm", name)


def rally(*args):
    p = subprocess.run([sys.executable, "-m", "esrally.rally", *args], env=ENV, capture_output=True, text=True)
    return p.returncode, p.stdout + p.stderr


failures = []
try:
    tracks = os.path.join(home, ".rally", "benchmarks", "tracks", "private")
    teams = os.path.join(home, ".rally", "benchmarks", "teams", "private")
    for d, write in ((tracks, write_track), (teams, write_car)):
        os.makedirs(d)
        sh(d, "init", "-q", "-b", "master")
        write(d, "branch-master")
        sh(d, "checkout", "-q", "-b", "7")
        write(d, "branch-7")
        sh(d, "checkout", "-q", "master")

    for what, d, repo_opt in (("tracks", tracks, "--track-repository=private"), ("cars", teams, "--team-repository=private")):
        rc, out = rally("list", what, repo_opt, "--distribution-version=7.0.0")
        branch = sh(d, "rev-parse", "--abbrev-ref", "HEAD")
        listed_7 = "branch-7" in out
        listed_master = "branch-master" in out
        ok = rc == 0 and branch == "7" and listed_7 and not listed_master
        print(f"esrally list {what} {repo_opt} --distribution-version=7.0.0   (repository branches: master, 7)")
        print("    expected: branch '7' is checked out and its content ('branch-7') is listed (documented fallback logic: major branch)")
        print(
            f"    observed: exit code {rc}, branch {branch!r} is checked out, "
            f"'branch-7' listed: {listed_7}, 'branch-master' listed: {listed_master}"
        )
        print(f"    -> {'ok' if ok else 'VIOLATION'}")
        if not ok:
            failures.append(what)
finally:
    shutil.rmtree(home, ignore_errors=True)

if failures:
    print(
        f"\nFAIL: 'esrally list {'/'.join(failures)}' ignores --distribution-version and uses branch master "
        f"instead of the documented best match for the given version."
    )
    sys.exit(1)
print("\nPASS")
