"""
C15 / f2: versions.best_match answers "master" for a version newer than every versioned branch WITHOUT
checking that a master branch is among the branches it was given (its docstring promises "the most specific
alternative that is available or None"). Consequences in repo.RallyRepository.update:

  A. local repository without a master branch (e.g. created with init.defaultBranch=main) but with a matching
     v-tag: nothing qualifies among the branches, so Rally must try the v-tag (and would find it). Instead it
     tries to check out the non-existing "master" and fails; the tag is never tried.
  B. repository with a configured remote whose remote branch list is empty (nothing pushed yet): Rally must fall back
     to the local branches ("Trying to find tracks locally") and use local branch 7 for ES 7.3.1. Instead best_match([])
     says "master", the local master is checked out and used silently (only a misleading "local changes" warning).

Run:  cd <checkout> && PYTHONPATH=<checkout> /venv/bin/python demo.py
"""
import logging
import os
import shutil
import subprocess
import sys
import tempfile

from esrally.utils import git, repo, versions

ENV = {
    **os.environ,
    "GIT_AUTHOR_NAME": "t",
    "GIT_AUTHOR_EMAIL": "t@example.org",
    "GIT_COMMITTER_NAME": "t",
    "GIT_COMMITTER_EMAIL": "t@example.org",
    "GIT_CONFIG_GLOBAL": "/dev/null",
    "GIT_CONFIG_SYSTEM": "/dev/null",
}


def sh(cwd, *args):
    subprocess.run(["git", "-C", cwd, *args], check=True, capture_output=True, env=ENV)


def make_repo(root, name, initial, branches, tags=()):
    d = os.path.join(root, name)
    os.makedirs(d)
    sh(d, "init", "-q", "-b", initial)
    with open(os.path.join(d, "marker.txt"), "w") as f:
        f.write(initial)
    sh(d, "add", ".")
    sh(d, "commit", "-qm", "initial")
    for b in branches:
        sh(d, "checkout", "-q", "-b", b, initial)
        with open(os.path.join(d, "marker.txt"), "w") as f:
            f.write(b)
        sh(d, "commit", "-qm", b, "-a")
    for tag, at in tags:
        sh(d, "tag", tag, at)
    sh(d, "checkout", "-q", initial)
    return d


def marker(d):
    with open(os.path.join(d, "marker.txt")) as f:
        return f.read()


logging.disable(logging.CRITICAL)
failures = []


def check(label, expected, observed):
    ok = observed == expected
    print(f"{label}\n    expected: {expected!r}\n    observed: {observed!r}\n    -> {'ok' if ok else 'VIOLATION'}")
    if not ok:
        failures.append(label)


# 0. the pure function
for branches, version in [([], "7.3.1"), (["main", "7"], "8.1.0"), (["7", "7.2"], "8.1.0")]:
    try:
        observed = versions.best_match(branches, version)
    except Exception as e:  # pylint: disable=broad-except
        observed = f"{type(e).__name__}: {e}"
    check(f"best_match({branches}, {version!r}) (no master among the alternatives)", None, observed)

root = tempfile.mkdtemp(prefix="c15-f2-")
try:
    # A. local-only repository: branches main + 7, tag v8.1.0 (the "7" commit is tagged so that the outcome is observable)
    d = make_repo(root, "private", "main", ["7"], tags=[("v8.1.0", "7")])
    r = repo.RallyRepository(remote_url=None, root_dir=root, repo_name="private", resource_name="tracks", offline=False)
    try:
        r.update("8.1.0")
        observed = f"checked out {git.head_revision(d)[:7]} (marker {marker(d)!r})"
    except Exception as e:  # pylint: disable=broad-except
        observed = f"{type(e).__name__}: {e}"
    tag_rev = subprocess.run(["git", "-C", d, "rev-parse", "v8.1.0"], capture_output=True, text=True, env=ENV).stdout.strip()
    check(
        "A. local repo, branches [main, 7], tag v8.1.0, ES 8.1.0: no branch qualifies -> the matching tag v8.1.0 must be tried and used",
        f"checked out {tag_rev[:7]} (marker '7')",
        observed,
    )

    # B. repository with a remote that has no branches yet (bare, nothing pushed); local branches master + 7
    bare = os.path.join(root, "origin.git")
    subprocess.run(["git", "init", "-q", "--bare", bare], check=True, capture_output=True, env=ENV)
    d = make_repo(root, "shared", "master", ["7"])
    sh(d, "remote", "add", "origin", bare)
    r = repo.RallyRepository(remote_url=bare, root_dir=root, repo_name="shared", resource_name="tracks", offline=False)
    try:
        r.update("7.3.1")
        observed = f"branch {git.current_branch(d)!r} (marker {marker(d)!r})"
    except Exception as e:  # pylint: disable=broad-except
        observed = f"{type(e).__name__}: {e}"
    check(
        "B. remote without any branch, local branches [master, 7], ES 7.3.1: nothing found remotely -> local best match '7' must be used",
        "branch '7' (marker '7')",
        observed,
    )
finally:
    shutil.rmtree(root, ignore_errors=True)

if failures:
    print(f"\nFAIL: {len(failures)} violation(s): best_match returns 'master' although no master branch is among the given branches.")
    sys.exit(1)
print("\nPASS")
