"""
C04 / f3: a request that runs into the client-side timeout *while the response body is being received* is recorded with
a service time (and latency) that ends at the last received chunk instead of at the moment the request ended.

Run as:  cd <checkout> && PYTHONPATH=<checkout> /venv/bin/python demo.py

Everything on the rally side is real: client.EsClientFactory.create_async() (RallyAsyncElasticsearch, RallyAsyncTransport,
RallyAiohttpHttpNode, the aiohttp trace hooks that drive the request context), the registered ``search`` runner
(runner.Query with all wrappers), driver.schedule_for, driver.AsyncExecutor, driver.execute_single, driver.Sampler.

The only fake is "Elasticsearch": a tiny HTTP/1.1 server on 127.0.0.1 (loopback, no external network) that answers a
search the way a struggling node does. Two variants are run with the same operation (``request-timeout``: 1 second,
documented in docs/track.rst for ``search``), on-error=continue:

  A. (control) the server accepts the request and never answers,
  B. the server sends the status line, the headers and the first chunk of the (chunked) body at once and then stalls.

In both variants the client gives up after exactly one second with a ConnectionTimeout, i.e. the request occupied the
client for one second.
"""

import asyncio
import sys
import threading

from esrally import track
from esrally.client import factory
from esrally.driver import driver, runner
from esrally.track import params

REQUEST_TIMEOUT = 1.0


class ConstantParamSource:
    def __init__(self, track, params, **kwargs):
        self._params = params
        self.infinite = True

    def partition(self, partition_index, total_partitions):
        return self

    def params(self):
        return {
            "index": "logs",
            "body": {"query": {"match_all": {}}},
            "cache": None,
            "request-params": {},
            "request-timeout": REQUEST_TIMEOUT,
        }


class StrugglingNode:
    def __init__(self, stall_after_first_chunk):
        self.stall_after_first_chunk = stall_after_first_chunk
        self.server = None
        self.requests = 0

    async def _handle(self, reader, writer):
        try:
            head = await reader.readuntil(b"\r\n\r\n")
            length = 0
            for line in head.decode("latin-1").split("\r\n")[1:]:
                if line.lower().startswith("content-length:"):
                    length = int(line.split(":", 1)[1])
            if length:
                await reader.readexactly(length)
            self.requests += 1
            if self.stall_after_first_chunk:
                first_chunk = b'{"took":3,"timed_out":false,"hits":{"total":{"value":10000,"relation":"gte"},"hits":['
                writer.write(
                    b"HTTP/1.1 200 OK\r\n"
                    b"X-elastic-product: Elasticsearch\r\n"
                    b"content-type: application/json\r\n"
                    b"transfer-encoding: chunked\r\n\r\n" + hex(len(first_chunk))[2:].encode() + b"\r\n" + first_chunk + b"\r\n"
                )
                await writer.drain()
            # ... and now the node is stuck (long GC, overload, ...)
            await asyncio.sleep(10 * REQUEST_TIMEOUT)
        except (asyncio.IncompleteReadError, ConnectionError, asyncio.CancelledError):
            pass
        finally:
            writer.close()

    async def start(self):
        self.server = await asyncio.start_server(self._handle, "127.0.0.1", 0)
        return self.server.sockets[0].getsockname()[1]

    def stop(self):
        self.server.close()


async def run_variant(stall_after_first_chunk):
    node = StrugglingNode(stall_after_first_chunk)
    port = await node.start()
    es = factory.EsClientFactory(
        [{"host": "127.0.0.1", "port": port}], {}, distribution_version="8.6.1", distribution_flavor="default"
    ).create_async(client_id=0)
    try:
        task = track.Task(
            "search",
            track.Operation("search", track.OperationType.Search.to_hyphenated_string(), params={}, param_source="c04-f3-param-source"),
            clients=1,
            warmup_iterations=0,
            iterations=1,
        )
        param_source = track.operation_parameters(track.Track(name="unittest"), task)
        allocation = driver.TaskAllocation(task, client_index_in_task=0, global_client_index=0, total_clients=1)
        schedule = driver.schedule_for(allocation, param_source)
        sampler = driver.Sampler(start_timestamp=0)
        executor = driver.AsyncExecutor(0, task, schedule, {"default": es}, sampler, threading.Event(), threading.Event(), "continue")
        await executor()
        samples = sampler.samples
        assert len(samples) == 1, f"expected exactly one sample but got {len(samples)}"
        assert node.requests == 1
        return samples[0]
    finally:
        await es.close()
        node.stop()


async def main():
    params.register_param_source_for_name("c04-f3-param-source", ConstantParamSource)
    runner.register_default_runners()

    failed = False
    for name, stall_after_first_chunk in [
        ("A (control): no response at all", False),
        ("B: headers + first body chunk, then silence", True),
    ]:
        s = await run_variant(stall_after_first_chunk)
        print(
            f"{name}\n    meta={s.request_meta_data}\n    service_time={s.service_time:.4f}s latency={s.latency:.4f}s "
            f"processing_time={s.processing_time:.4f}s"
        )
        assert s.request_meta_data["success"] is False and s.request_meta_data["error-description"] == "network connection timed out"
        assert s.processing_time >= s.service_time >= 0 and s.latency == s.service_time
        # the request was sent at the start and ended (with a timeout) REQUEST_TIMEOUT seconds later. Allow 10% for timer slack.
        if s.service_time < 0.9 * REQUEST_TIMEOUT:
            failed = True
            print(
                f"    FAIL: the request was outstanding for {REQUEST_TIMEOUT}s until the client timed out but the sample says "
                f"service_time={s.service_time * 1000:.1f}ms (and latency={s.latency * 1000:.1f}ms); the remaining "
                f"{(s.processing_time - s.service_time) * 1000:.0f}ms are attributed to 'client-side overhead' (processing_time - service_time)"
            )
        else:
            print("    ok")

    if failed:
        print(
            f"\nEXPECTED: in both variants the sample of the timed out request has service_time ~= {REQUEST_TIMEOUT}s: the span from "
            "sending the request until the request ended (esrally/client/factory.py: 'ensure that we also stop the timer when a "
            "request \"ends\" with an exception (e.g. a timeout)').\n"
            "OBSERVED: as soon as one chunk of the body has arrived, a later timeout does not stop the timer any more: the service time "
            "ends at the last chunk that was received (about a millisecond after the request was sent)."
        )
        return 1
    print("OK")
    return 0


if __name__ == "__main__":
    sys.exit(asyncio.run(main()))
