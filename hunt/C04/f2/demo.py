"""
C04 / f2: the sample type of a throttled request is decided *before* the client sleeps until the request's scheduled
time, so a request that is issued well after the warmup time period has ended is still recorded as a warmup sample.

Run as:  cd <checkout> && PYTHONPATH=<checkout> /venv/bin/python demo.py

Real rally code that is exercised: track.Task / track.Operation, track.operation_parameters, the runner registry,
driver.schedule_for, driver.ScheduleHandle, driver.TimePeriodBased, scheduler.UnitAwareScheduler +
DeterministicScheduler, driver.AsyncExecutor, driver.execute_single, driver.Sampler / driver.Sample and
esrally.client.context.

Faked, as narrowly as possible:
  * the Elasticsearch client: derives from rally's RequestContextHolder (like RallyAsyncElasticsearch); its only "API
    call" signals on_request_start(), waits for the service time and signals on_request_end().
  * the clock: the event loop runs on a virtual clock (time advances only when every coroutine waits for a timer) and
    time.perf_counter()/time.time() read that clock, so all numbers are exact and reproducible.
"""

import asyncio
import sys
import threading
import time

from esrally import metrics, track
from esrally.client.context import RequestContextHolder
from esrally.driver import driver, runner
from esrally.track import params


class VirtualTimeLoop(asyncio.SelectorEventLoop):
    """An event loop whose clock jumps to the next timer instead of waiting for it."""

    def __init__(self):
        super().__init__()
        self._virtual_now = 1000.0
        real_select = self._selector.select

        def select(timeout=None):
            if timeout is not None and timeout > 0:
                self._virtual_now += timeout
            return real_select(0)

        self._selector.select = select

    def time(self):
        return self._virtual_now


class FakeEs(RequestContextHolder):
    def __init__(self, service_time):
        self.service_time = service_time

    async def search(self):
        self.on_request_start()
        await asyncio.sleep(self.service_time)
        self.on_request_end()


class ConstantParamSource:
    def __init__(self, track, params, **kwargs):
        self._params = params
        self.infinite = True

    def partition(self, partition_index, total_partitions):
        return self

    def params(self):
        return dict(self._params)


async def demo_search(es, params):
    await es.search()
    return 1, "ops"


TARGET_INTERVAL = 4  # s: requests are due at 0, 4, 8, 12, 16, ...
WARMUP = 10  # s
TIME_PERIOD = 10  # s
SERVICE_TIME = 0.5  # s, the client is never behind schedule


def main():
    loop = VirtualTimeLoop()
    asyncio.set_event_loop(loop)
    real_clocks = (time.perf_counter, time.time)
    time.perf_counter = loop.time
    time.time = lambda: 1_700_000_000.0 + loop.time()
    try:
        params.register_param_source_for_name("c04-f2-param-source", ConstantParamSource)
        runner.register_runner("c04-f2-search", demo_search, async_runner=True)

        task = track.Task(
            "throttled-search",
            track.Operation("throttled-search", "c04-f2-search", params={}, param_source="c04-f2-param-source"),
            clients=1,
            warmup_time_period=WARMUP,
            time_period=TIME_PERIOD,
            params={"target-interval": TARGET_INTERVAL, "clients": 1},
        )
        param_source = track.operation_parameters(track.Track(name="unittest"), task)
        allocation = driver.TaskAllocation(task, client_index_in_task=0, global_client_index=0, total_clients=1)
        schedule = driver.schedule_for(allocation, param_source)
        task_start = loop.time()
        sampler = driver.Sampler(start_timestamp=task_start)
        executor = driver.AsyncExecutor(
            0, task, schedule, {"default": FakeEs(SERVICE_TIME)}, sampler, threading.Event(), threading.Event(), "continue"
        )
        loop.run_until_complete(executor())
    finally:
        time.perf_counter, time.time = real_clocks
        loop.close()

    samples = sampler.samples
    problems = []
    for s in samples:
        issue = s.relative_time
        expected_type = metrics.SampleType.Warmup if issue < WARMUP else metrics.SampleType.Normal
        print(
            f"  issued at {issue:5.1f}s  recorded as {s.sample_type.name:6s}  (service_time={s.service_time:.1f}s, "
            f"latency={s.latency:.1f}s, timestamp={s.absolute_time - 1_700_000_000.0 - task_start:5.1f}s after task start)"
        )
        assert s.processing_time >= s.service_time >= 0 and s.latency >= s.service_time - 1e-9
        if s.sample_type != expected_type:
            problems.append(
                f"request issued {issue:.1f}s after the start of the task (warmup-time-period: {WARMUP}s) is recorded as "
                f"{s.sample_type.name} sample, expected {expected_type.name}"
            )

    if problems:
        print("\nFAIL:")
        for p in problems:
            print("  - " + p)
        print(
            f"\nEXPECTED: every request that is issued at or after second {WARMUP} (the end of the warmup-time-period) carries the "
            "sample type Normal and shows up in the measurement results.\n"
            "OBSERVED: the sample type is taken from the clock reading made when the previous request had finished (second 8.5), "
            "i.e. before the client slept until the scheduled time of the request; the request issued at second 12 is therefore "
            "dropped from the results as a warmup sample although warmup ended two seconds earlier."
        )
        return 1
    print("OK: every sample carries the sample type that matches its issue time")
    return 0


if __name__ == "__main__":
    sys.exit(main())
