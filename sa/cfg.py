"""Statement-level control-flow graph for one Python function, with dominance / cut-set / control-dependence queries.

Specification: DESIGN.md Appendix A. Conservative exception edges (every statement that contains a call, await,
subscript, non-self attribute load, division, assert or raise may raise); `finally` bodies are duplicated per
continuation kind. Nested defs/lambdas are opaque statements.
"""
from __future__ import annotations

import ast
from typing import Callable, Iterable, Optional

from .source import SCOPE_TYPES, walk_local


class Node:
    __slots__ = ("id", "kind", "ast", "label", "copy")

    def __init__(self, id: int, kind: str, astnode: Optional[ast.AST], label: str = "", copy: str = ""):
        self.id = id
        self.kind = kind  # entry exit raise_exit stmt test for with except finally_entry join
        self.ast = astnode
        self.label = label
        self.copy = copy  # which finally-copy this node belongs to ('' = primary)

    def __repr__(self):
        ln = getattr(self.ast, "lineno", "-")
        return f"<{self.id}:{self.kind}@{ln}{'/' + self.copy if self.copy else ''}>"


CATCH_ALL = {"BaseException"}


def may_raise(node: ast.AST) -> bool:
    for n in walk_local(node):
        if isinstance(n, (ast.Call, ast.Await, ast.Subscript, ast.Raise, ast.Assert, ast.Delete, ast.Yield, ast.YieldFrom)):
            return True
        if isinstance(n, ast.Attribute) and isinstance(n.ctx, ast.Load):
            if not (isinstance(n.value, ast.Name) and n.value.id in ("self", "cls")):
                return True
        if isinstance(n, ast.BinOp) and isinstance(n.op, (ast.Div, ast.FloorDiv, ast.Mod)):
            return True
    return False


def _expr_may_raise(e: Optional[ast.AST]) -> bool:
    return e is not None and may_raise(e)


class _Frame:
    def __init__(self, kind: str, **kw):
        self.kind = kind  # loop | try | finally
        self.__dict__.update(kw)
        self.memo: dict = {}


class CFG:
    def __init__(self, func: ast.AST, handler_catches: Optional[Callable[[ast.ExceptHandler], set]] = None):
        self.func = func
        self.nodes: list[Node] = []
        self.succ: dict[int, list[tuple[int, str]]] = {}
        self.pred: dict[int, list[tuple[int, str]]] = {}
        self.by_ast: dict[int, list[Node]] = {}
        self._frames: list[_Frame] = []
        self._copy = ""
        self.back_edges: set[tuple[int, int]] = set()
        self.entry = self._new("entry", None)
        self.exit = self._new("exit", None)
        self.raise_exit = self._new("raise_exit", None)
        body = func.body if not isinstance(func, ast.Lambda) else [ast.Return(value=func.body)]
        outs = self._block(body, [(self.entry, "seq")])
        for n, lab in outs:
            self._edge(n, self.exit, lab if lab != "seq" else "fallthrough")
        self._dom = None
        self._pdom = {}

    # -- construction -----------------------------------------------------------------------------
    def _new(self, kind: str, astnode, label: str = "") -> Node:
        n = Node(len(self.nodes), kind, astnode, label, self._copy)
        self.nodes.append(n)
        self.succ[n.id] = []
        self.pred[n.id] = []
        if astnode is not None:
            self.by_ast.setdefault(id(astnode), []).append(n)
        return n

    def _edge(self, a: Node, b: Node, label: str) -> None:
        if (b.id, label) not in self.succ[a.id]:
            self.succ[a.id].append((b.id, label))
            self.pred[b.id].append((a.id, label))

    def _connect(self, ins, node: Node) -> None:
        for n, lab in ins:
            self._edge(n, node, lab)

    def _block(self, stmts, ins):
        """ins: list of (node,label) dangling edges. Returns dangling edges after the block."""
        cur = ins
        for s in stmts:
            if not cur:
                # unreachable code still gets nodes (so anchors can be located) but no incoming edges
                pass
            cur = self._stmt(s, cur)
        return cur

    def _jump(self, src: Node, kind: str, label: str, depth: Optional[int] = None) -> None:
        """Route a non-local transfer (raise/return/break/continue) from src outward through frames."""
        i = (len(self._frames) if depth is None else depth) - 1
        cur_src, cur_label = src, label
        while i >= 0:
            fr = self._frames[i]
            if fr.kind == "try" and kind == "raise":
                for h in fr.handlers:
                    self._edge(cur_src, h, cur_label if cur_label.startswith("exc") or cur_label == "raise" else "exc")
                if fr.catch_all:
                    return
            elif fr.kind == "loop" and kind in ("break", "continue"):
                if kind == "break":
                    fr.breaks.append((cur_src, cur_label))
                else:
                    self._edge(cur_src, fr.head, cur_label)
                return
            elif fr.kind == "finally":
                mk = kind
                if mk not in fr.memo:
                    # build a copy of the finally body for this continuation kind, with frames = outer frames only
                    saved_frames, saved_copy = self._frames, self._copy
                    self._frames = self._frames[:i]
                    self._copy = (saved_copy + "|" if saved_copy else "") + f"finally@{getattr(fr.node, 'lineno', 0)}:{kind}"
                    fentry = self._new("finally_entry", fr.node, kind)
                    outs = self._block(fr.body, [(fentry, "seq")])
                    tail = self._new("join", fr.node, f"after-finally:{kind}")
                    self._connect(outs, tail)
                    # continue outward from the tail
                    self._jump(tail, kind, {"raise": "exc", "return": "return", "break": "break", "continue": "continue"}[kind], depth=i)
                    self._frames, self._copy = saved_frames, saved_copy
                    fr.memo[mk] = fentry
                self._edge(cur_src, fr.memo[mk], cur_label)
                return
            i -= 1
        if kind == "raise":
            self._edge(cur_src, self.raise_exit, cur_label)
        elif kind == "return":
            self._edge(cur_src, self.exit, cur_label)
        else:  # break/continue outside loop: malformed, treat as exit
            self._edge(cur_src, self.exit, cur_label)

    def _simple(self, s: ast.stmt, ins, kind="stmt") -> Node:
        n = self._new(kind, s)
        self._connect(ins, n)
        return n

    def _stmt(self, s: ast.stmt, ins):
        if isinstance(s, (ast.FunctionDef, ast.AsyncFunctionDef, ast.ClassDef)):
            n = self._simple(s, ins)
            return [(n, "seq")]
        if isinstance(s, ast.Return):
            n = self._simple(s, ins)
            if _expr_may_raise(s.value):
                self._jump(n, "raise", "exc")
            self._jump(n, "return", "return")
            return []
        if isinstance(s, ast.Raise):
            n = self._simple(s, ins)
            self._jump(n, "raise", "raise")
            return []
        if isinstance(s, ast.Break):
            n = self._simple(s, ins)
            self._jump(n, "break", "break")
            return []
        if isinstance(s, ast.Continue):
            n = self._simple(s, ins)
            self._jump(n, "continue", "continue")
            return []
        if isinstance(s, ast.If):
            t = self._new("test", s)
            self._connect(ins, t)
            if _expr_may_raise(s.test):
                self._jump(t, "raise", "exc")
            outs = self._block(s.body, [(t, "true")])
            if s.orelse:
                outs = outs + self._block(s.orelse, [(t, "false")])
            else:
                outs = outs + [(t, "false")]
            return outs
        if isinstance(s, ast.While):
            t = self._new("test", s)
            self._connect(ins, t)
            if _expr_may_raise(s.test):
                self._jump(t, "raise", "exc")
            fr = _Frame("loop", head=t, breaks=[])
            self._frames.append(fr)
            outs = self._block(s.body, [(t, "true")])
            self._frames.pop()
            for n, lab in outs:
                self._edge(n, t, "back" if lab == "seq" else lab)
                self.back_edges.add((n.id, t.id))
            infinite = isinstance(s.test, ast.Constant) and bool(s.test.value) is True
            after = []
            if not infinite:
                if s.orelse:
                    after += self._block(s.orelse, [(t, "false")])
                else:
                    after += [(t, "false")]
            after += fr.breaks
            return after
        if isinstance(s, (ast.For, ast.AsyncFor)):
            h = self._new("for", s)
            self._connect(ins, h)
            if _expr_may_raise(s.iter) or isinstance(s, ast.AsyncFor):
                self._jump(h, "raise", "exc")
            fr = _Frame("loop", head=h, breaks=[])
            self._frames.append(fr)
            outs = self._block(s.body, [(h, "iter")])
            self._frames.pop()
            for n, lab in outs:
                self._edge(n, h, "back" if lab == "seq" else lab)
                self.back_edges.add((n.id, h.id))
            after = []
            if s.orelse:
                after += self._block(s.orelse, [(h, "exhausted")])
            else:
                after += [(h, "exhausted")]
            after += fr.breaks
            return after
        if isinstance(s, (ast.With, ast.AsyncWith)):
            w = self._new("with", s)
            self._connect(ins, w)
            self._jump(w, "raise", "exc")
            outs = self._block(s.body, [(w, "seq")])
            x = self._new("with_exit", s)
            self._connect(outs, x)
            return [(x, "seq")]
        if isinstance(s, ast.Try) or s.__class__.__name__ == "TryStar":
            return self._try(s, ins)
        if isinstance(s, ast.Match):
            t = self._new("test", s)
            self._connect(ins, t)
            if _expr_may_raise(s.subject):
                self._jump(t, "raise", "exc")
            outs = []
            exhaustive = False
            for c in s.cases:
                outs += self._block(c.body, [(t, "case")])
                if isinstance(c.pattern, ast.MatchAs) and c.pattern.pattern is None and c.guard is None:
                    exhaustive = True
            if not exhaustive:
                outs.append((t, "nomatch"))
            return outs
        # simple statement
        n = self._simple(s, ins)
        if may_raise(s):
            self._jump(n, "raise", "exc")
        return [(n, "seq")]

    def _try(self, s, ins):
        has_finally = bool(s.finalbody)
        if has_finally:
            ffr = _Frame("finally", body=s.finalbody, node=s)
            self._frames.append(ffr)
        outs_all = []
        if s.handlers:
            heads = []
            catch_all = False
            for h in s.handlers:
                hn = self._new("except", h)
                heads.append(hn)
                if h.type is None:
                    catch_all = True
                else:
                    names = [e for e in (h.type.elts if isinstance(h.type, ast.Tuple) else [h.type])]
                    for e in names:
                        nm = e.attr if isinstance(e, ast.Attribute) else getattr(e, "id", None)
                        if nm in CATCH_ALL:
                            catch_all = True
            tfr = _Frame("try", handlers=heads, catch_all=catch_all)
            self._frames.append(tfr)
            tentry = self._new("try", s)
            self._connect(ins, tentry)
            body_outs = self._block(s.body, [(tentry, "seq")])
            self._frames.pop()
            if s.orelse:
                body_outs = self._block(s.orelse, body_outs)
            outs_all += body_outs
            for h, hn in zip(s.handlers, heads):
                outs_all += self._block(h.body, [(hn, "seq")])
        else:
            tentry = self._new("try", s)
            self._connect(ins, tentry)
            outs_all += self._block(s.body, [(tentry, "seq")])
        if has_finally:
            self._frames.pop()
            saved_copy = self._copy
            self._copy = (saved_copy + "|" if saved_copy else "") + f"finally@{getattr(s, 'lineno', 0)}:normal"
            fentry = self._new("finally_entry", s, "normal")
            self._connect(outs_all, fentry)
            outs = self._block(s.finalbody, [(fentry, "seq")])
            self._copy = saved_copy
            return outs
        return outs_all

    # -- queries ----------------------------------------------------------------------------------
    def node_of(self, astnode: ast.AST, all_copies: bool = False):
        """CFG node(s) for an AST statement (or the statement enclosing an expression)."""
        n = astnode
        while n is not None and id(n) not in self.by_ast:
            n = getattr(n, "_parent", None)
            if n is self.func:
                n = None
        if n is None:
            raise KeyError(f"no CFG node for line {getattr(astnode, 'lineno', '?')}")
        ns = self.by_ast[id(n)]
        # for compound statements prefer the head node kinds
        return ns if all_copies else ns[0]

    def nodes_of(self, astnode: ast.AST) -> list[Node]:
        try:
            ns = self.node_of(astnode, all_copies=True)
        except KeyError:
            return []
        # only "primary" node kinds per statement (skip with_exit / finally_entry / join helper nodes)
        prim = [n for n in ns if n.kind not in ("with_exit", "finally_entry", "join", "try")]
        return prim or ns

    def reachable(
        self,
        srcs: Iterable[Node],
        avoid: Iterable[Node] = (),
        avoid_edges: Iterable[tuple[int, int, str]] = (),
        edge_ok: Optional[Callable[[int, int, str], bool]] = None,
    ) -> set[int]:
        avoid_ids = {n.id for n in avoid}
        bad = set(avoid_edges)
        seen = set()
        stack = [n.id for n in srcs if n.id not in avoid_ids]
        while stack:
            x = stack.pop()
            if x in seen:
                continue
            seen.add(x)
            for y, lab in self.succ[x]:
                if y in avoid_ids or (x, y, lab) in bad:
                    continue
                if edge_ok is not None and not edge_ok(x, y, lab):
                    continue
                if y not in seen:
                    stack.append(y)
        return seen

    def live_nodes(self) -> set[int]:
        return self.reachable([self.entry])

    def must_pass(self, src: Node, through: Iterable[Node], exits: Optional[Iterable[Node]] = None, avoid_edges=(), normal_only: bool = False) -> bool:
        """True iff every path from src to any of `exits` (default: normal exit) passes through a node of `through`.
        normal_only: ignore exception edges (paths on which some statement raised)."""
        ex = [self.exit] if exits is None else list(exits)
        r = self.reachable([src], avoid=through, avoid_edges=avoid_edges, edge_ok=self.normal_edge if normal_only else None)
        return not any(e.id in r for e in ex)

    def dominated_by_nodes(self, target: Node, through: Iterable[Node]) -> bool:
        """True iff every path entry -> target passes through one of `through`."""
        r = self.reachable([self.entry], avoid=through)
        return target.id not in r

    def dominated_by_edge(self, target: Node, test: Node, label: str) -> bool:
        """True iff target is reachable from entry only via the edge (test --label--> *)."""
        if target.id not in self.live_nodes():
            return True
        bad = [(test.id, y, lab) for (y, lab) in self.succ[test.id] if lab == label]
        if not bad:
            return False
        r = self.reachable([self.entry], avoid_edges=bad)
        return target.id not in r

    def only_after_normal_return(self, target_ast: ast.AST, call_ast: ast.AST) -> bool:
        """True iff every copy of target (finally bodies are duplicated per exit kind) is reachable from entry only through a NORMAL out-edge of the statement holding call_ast:
        the target never runs on a path on which that statement raised, and never without it."""
        cn = self.node_of(call_ast)
        normal = [(cn.id, y, lab) for (y, lab) in self.succ[cn.id] if self.normal_edge(cn.id, y, lab)]
        if not normal:
            return False
        r = self.reachable([self.entry], avoid_edges=normal)
        return not any(t.id in r for t in self.nodes_of(target_ast))

    def edge_targets(self, test: Node, label: str) -> list[Node]:
        return [self.nodes[y] for (y, lab) in self.succ[test.id] if lab == label]

    def path_exists(self, a: Node, b: Node, avoid: Iterable[Node] = (), edge_ok=None) -> bool:
        if a.id == b.id:
            return True
        r = self.reachable([a], avoid=avoid, edge_ok=edge_ok)
        return b.id in r

    def normal_edge(self, x: int, y: int, lab: str) -> bool:
        return not (lab.startswith("exc") or lab == "raise")

    def find_path(self, a: Node, b: Node, avoid: Iterable[Node] = (), edge_ok=None) -> Optional[list]:
        """One path a->b avoiding nodes (BFS), as a list of (node,label) for reporting."""
        avoid_ids = {n.id for n in avoid}
        from collections import deque

        prev = {a.id: None}
        dq = deque([a.id])
        while dq:
            x = dq.popleft()
            if x == b.id:
                out = []
                while prev[x] is not None:
                    px, lab = prev[x]
                    out.append((self.nodes[x], lab))
                    x = px
                out.append((a, "start"))
                return list(reversed(out))
            for y, lab in self.succ[x]:
                if y in avoid_ids or y in prev:
                    continue
                if edge_ok is not None and not edge_ok(x, y, lab):
                    continue
                prev[y] = (x, lab)
                dq.append(y)
        return None

    def describe_path(self, path) -> list[str]:
        out = []
        for n, lab in path:
            ln = getattr(n.ast, "lineno", None)
            out.append(f"{lab}->{n.kind}@{ln if ln else '-'}")
        return out

    def control_deps(self, target: Node) -> list[tuple[Node, str]]:
        """(test node, edge label) pairs such that target is reachable only via that edge (edge-dominators)."""
        out = []
        for n in self.nodes:
            if n.kind in ("test", "for") and n.id != target.id:
                for lab in {lab for (_, lab) in self.succ[n.id]}:
                    if lab.startswith("exc"):
                        continue
                    if self.dominated_by_edge(target, n, lab):
                        out.append((n, lab))
        return out

    def enum_paths(self, start: Optional[Node] = None, limit: int = 4096, edge_ok=None, loop_bound: int = 1):
        """Enumerate paths from start to an exit; every node visited at most loop_bound+1 times.
        Yields lists of (node, label_taken_to_reach_it). Raises OverflowError beyond `limit` paths."""
        start = start or self.entry
        count = 0
        out = []
        stack = [(start.id, [(start, "start")], {start.id: 1})]
        while stack:
            x, path, visits = stack.pop()
            if x in (self.exit.id, self.raise_exit.id):
                out.append(path)
                count += 1
                if count > limit:
                    raise OverflowError("path limit exceeded")
                continue
            for y, lab in self.succ[x]:
                if edge_ok is not None and not edge_ok(x, y, lab):
                    continue
                v = visits.get(y, 0)
                if v > loop_bound:
                    continue
                nv = dict(visits)
                nv[y] = v + 1
                stack.append((y, path + [(self.nodes[y], lab)], nv))
        return out


_cache: dict[int, CFG] = {}


def cfg_of(func: ast.AST) -> CFG:
    c = _cache.get(id(func))
    if c is None or c.func is not func:
        c = CFG(func)
        _cache[id(func)] = c
    return c


def guards(node: ast.AST, stop: Optional[ast.AST] = None, path_sensitive: bool = False) -> list[tuple[ast.AST, bool]]:
    """Syntactic guards: enclosing `if`/`while`/ternary tests with polarity (True = node lies in the true arm).
    For an `elif`/`else` arm the negations of the earlier arms are included. Stops at the enclosing function (or `stop`).
    Guard clauses (`if c: <jump>` followed by the rest of the block) are represented as `if c: <jump> else: <rest>` by the parse-time normalisation (N8); the negated condition of
    such a synthetic else is reported only with path_sensitive=True — the default answers "under which explicit branch was this written", path_sensitive answers "what is known
    to hold when this runs"."""
    out = []
    child = node
    p = getattr(node, "_parent", None)
    while p is not None and p is not stop and not isinstance(p, SCOPE_TYPES):
        if isinstance(p, (ast.If, ast.While)):
            syn = getattr(p, "_synthetic_arm", None)
            if any(child is s for s in p.body):
                if path_sensitive or syn != "body":
                    out.append((p.test, True))
            elif any(child is s for s in p.orelse):
                if path_sensitive or syn != "orelse":
                    out.append((p.test, False))
        elif isinstance(p, ast.IfExp):
            if child is p.body:
                out.append((p.test, True))
            elif child is p.orelse:
                out.append((p.test, False))
        child = p
        p = getattr(p, "_parent", None)
    return list(reversed(out))


# ---------------------------------------------------------------------------------------------------------
# guard facts: polarity- and orientation-insensitive view of the syntactic guards

_NEGOP = {ast.Lt: ast.GtE, ast.Gt: ast.LtE, ast.LtE: ast.Gt, ast.GtE: ast.Lt, ast.Eq: ast.NotEq, ast.NotEq: ast.Eq, ast.Is: ast.IsNot, ast.IsNot: ast.Is, ast.In: ast.NotIn, ast.NotIn: ast.In}
_FLIPOP = {ast.Lt: ast.Gt, ast.Gt: ast.Lt, ast.LtE: ast.GtE, ast.GtE: ast.LtE, ast.Eq: ast.Eq, ast.NotEq: ast.NotEq}


def negate(e: ast.AST) -> ast.AST:
    if isinstance(e, ast.UnaryOp) and isinstance(e.op, ast.Not):
        return e.operand
    if isinstance(e, ast.Compare) and len(e.ops) == 1 and type(e.ops[0]) in _NEGOP:
        return ast.Compare(left=e.left, ops=[_NEGOP[type(e.ops[0])]()], comparators=e.comparators)
    if isinstance(e, ast.BoolOp):
        return ast.BoolOp(op=ast.And() if isinstance(e.op, ast.Or) else ast.Or(), values=[negate(v) for v in e.values])
    return ast.UnaryOp(op=ast.Not(), operand=e)


def conjuncts(e: ast.AST) -> list:
    if isinstance(e, ast.BoolOp) and isinstance(e.op, ast.And):
        out = []
        for v in e.values:
            out += conjuncts(v)
        return out
    return [e]


def forms(a: ast.AST) -> set:
    """text forms of one atomic fact: itself and, for a two-operand comparison, the flipped orientation."""
    out = {ast.unparse(a)}
    if isinstance(a, ast.Compare) and len(a.ops) == 1 and type(a.ops[0]) in _FLIPOP:
        out.add(ast.unparse(ast.Compare(left=a.comparators[0], ops=[_FLIPOP[type(a.ops[0])]()], comparators=[a.left])))
    return out


def facts(node: ast.AST, stop: Optional[ast.AST] = None) -> set:
    """Atomic facts (as text, both comparison orientations) that hold whenever `node` executes, derived from its syntactic guards:
    true-arm tests contribute their conjuncts, false-arm tests the conjuncts of their negation (De Morgan, negated comparisons)."""
    out = set()
    for t, pol in guards(node, stop, path_sensitive=True):
        e = t if pol else negate(t)
        for a in conjuncts(e):
            out |= forms(a)
    return out


def holds(node: ast.AST, *patterns: str, stop: Optional[ast.AST] = None) -> bool:
    """True iff every pattern (text of an atomic fact, any orientation) is among the guard facts of node."""
    f = facts(node, stop)
    return all(any(x in f for x in forms(ast.parse(p, mode="eval").body)) for p in patterns)
