"""Obligation registry, floors, evidence writer, known-findings matching, replay files, exit codes."""
from __future__ import annotations

import ast
import hashlib
import json
import os
import sys
import time
from typing import Optional

from . import source
from .source import AnchorMissing

VERIF = os.path.dirname(os.path.dirname(os.path.abspath(__file__)))
KNOWN_FINDINGS = os.path.join(VERIF, "known_findings.json")


class Inconclusive(Exception):
    """The analysis cannot decide (unknown idiom in an armed slot, floor not met)."""


class Obligation:
    def __init__(self, rule, instance, ok, site, detail, key, why, path=None):
        self.rule = rule
        self.instance = instance
        self.ok = ok
        self.site = site
        self.detail = detail
        self.key = key
        self.why = why
        self.path = path

    def as_dict(self):
        d = {"rule": self.rule, "instance": self.instance, "verdict": "discharged" if self.ok else "FALSIFIED", "site": self.site}
        if self.detail:
            d["detail"] = self.detail
        if not self.ok:
            d["key"] = self.key
            if self.path:
                d["path"] = self.path
        return d


class Check:
    def __init__(self, property_id: str, tier: str = "quick", repo: Optional[source.Repo] = None, quiet: bool = False):
        self.pid = property_id
        self.tier = tier
        self.repo = repo or source.Repo()
        self.quiet = quiet
        self.obligations: list[Obligation] = []
        self.advisories: list[dict] = []
        self.rules: dict[str, dict] = {}
        self.inconclusive: list[str] = []
        self.files: set[str] = set()
        self.stats: dict = {}
        self.t0 = time.time()
        self.explanation = ""
        self.not_decided = ""
        self.trusted: list[str] = []
        self.selftest: Optional[dict] = None

    # -- registration ---------------------------------------------------------------------------------
    def rule(self, rule_id: str, text: str, floor: int = 1, breaks: str = ""):
        """Declare a rule (template). floor = minimum number of instances confirmed by hand on the pinned tree."""
        self.rules[rule_id] = {"text": text, "floor": floor, "breaks": breaks, "instances": 0}

    def use(self, *mods):
        for m in mods:
            if isinstance(m, source.Module):
                self.files.add(m.relpath)
            else:
                self.files.add(m)

    def ob(self, rule_id: str, instance: str, ok: bool, node=None, detail: str = "", key: Optional[str] = None, why: str = "", path=None):
        """Record one obligation (rule instance). node: AST node of the construct for site/key."""
        if rule_id not in self.rules:
            raise KeyError(f"rule {rule_id} not declared")
        self.rules[rule_id]["instances"] += 1
        site = source.loc(node) if isinstance(node, ast.AST) else (node or "")
        if key is None:
            if isinstance(node, ast.AST):
                key = source.key(node) + "#" + instance
            else:
                key = f"{site}#{instance}"
        o = Obligation(rule_id, instance, bool(ok), site, detail, f"{rule_id}|{key}", why or self.rules[rule_id]["breaks"], path)
        self.obligations.append(o)
        return bool(ok)

    def adv(self, rule_id: str, text: str, node=None):
        self.advisories.append({"rule": rule_id, "note": text, "site": source.loc(node) if isinstance(node, ast.AST) else (node or "")})

    def unknown(self, rule_id: str, text: str, node=None):
        """An armed slot contains an idiom that is not one of the enumerated forms: inconclusive (exit 2)."""
        site = source.loc(node) if isinstance(node, ast.AST) else (node or "")
        self.inconclusive.append(f"{rule_id}: {text} @ {site}")

    # -- finish -------------------------------------------------------------------------------------
    def _known(self):
        try:
            with open(KNOWN_FINDINGS, encoding="utf-8") as f:
                data = json.load(f)
        except FileNotFoundError:
            return []
        found = [e for e in data.get("findings", []) if e.get("property") == self.pid and e.get("status") == "known"]
        # development aid only (never set by a registered command): candidate entries a rule author is still working on
        extra = os.environ.get("SA_EXTRA_KNOWN")
        if extra and os.path.exists(extra):
            with open(extra, encoding="utf-8") as f:
                found += [e for e in json.load(f) if e.get("property") == self.pid and e.get("status") == "known"]
        return found

    def finish(self, exit_process: bool = True) -> int:
        wall = time.time() - self.t0
        for rid, r in self.rules.items():
            if r["instances"] < r["floor"]:
                self.inconclusive.append(f"{rid}: only {r['instances']} instance(s) located, floor is {r['floor']} (anchor vanished or idiom changed)")
        known = self._known()
        known_hits = []
        violations = []
        for o in self.obligations:
            if o.ok:
                continue
            hit = None
            for e in known:
                if e.get("rule") == o.rule and e.get("construct") and e["construct"] in o.key:
                    hit = e
                    break
            if hit is not None:
                known_hits.append((hit, o))
            else:
                violations.append(o)
        evdir = os.path.join(VERIF, "evidence")
        os.makedirs(os.path.join(evdir, "replay"), exist_ok=True)
        lines = []
        replay_paths = []
        for o in violations:
            h = hashlib.sha256(o.key.encode()).hexdigest()[:12]
            rp = os.path.join(evdir, "replay", f"{self.pid}-{h}.json")
            with open(rp, "w", encoding="utf-8") as f:
                json.dump(
                    {
                        "property": self.pid,
                        "rule": o.rule,
                        "rule_text": self.rules[o.rule]["text"],
                        "instance": o.instance,
                        "key": o.key,
                        "site": o.site,
                        "detail": o.detail,
                        "breaks": o.why,
                        "path": o.path,
                    },
                    f,
                    indent=1,
                )
            replay_paths.append(rp)
            lines.append(f"  [{o.rule}] {o.instance} @ {o.site}: {o.detail}")
            lines.append(f"VIOLATION property={self.pid} replay={rp}")
        discharged = sum(1 for o in self.obligations if o.ok)
        distinct = len({(o.rule, o.instance, o.site) for o in self.obligations})
        samples = [o.as_dict() for o in self.obligations if not o.ok][:10]
        per_rule_seen = set()
        for o in self.obligations:
            if o.ok and o.rule not in per_rule_seen:
                per_rule_seen.add(o.rule)
                samples.append(o.as_dict())
        status = "violation" if violations else ("inconclusive" if self.inconclusive else "held")
        ev = {
            "property_id": self.pid,
            "tier": self.tier,
            "seed": int(os.environ.get("VERIF_SEED", "0") or 0),
            "level": "other",
            "coverage": {
                "explanation": (self.explanation + " NOT DECIDED by this technique: " + self.not_decided).strip(),
                "obligations": len(self.obligations),
                "discharged": discharged,
                "evaluations": len(self.obligations),
                "distinct_nontrivial": distinct,
                "rule": "an obligation is one rule template with its slots filled from the current /repo source (a construct: "
                "call site, handler, path, table row); distinct = distinct (rule, instance, site); non-trivial = bound to a concrete construct",
                "samples": samples[:40],
                "rules": {
                    rid: {"text": r["text"], "floor": r["floor"], "instances": r["instances"], "breaks": r["breaks"]} for rid, r in self.rules.items()
                },
                "status": status,
                "known_findings": [{"what": e.get("what"), "rule": o.rule, "site": o.site} for e, o in known_hits],
                "advisory": self.advisories[:60],
                "inconclusive": self.inconclusive,
                "files": self.repo.digests(sorted(self.files)),
                "stats": self.stats,
                "checker_cmd": f"/venv/bin/python check.py {self.pid} --tier {self.tier}",
                "trusted_base": ["CPython ast/re._parser", "sa/ engine (cfg, sym, tables)", "role tables in rules/"] + self.trusted,
                "exhaustive": False,
            },
            "assumptions": [
                "obligations are necessary structural conditions of the property, not sufficient ones",
                "Thespian dispatch convention receiveMsg_<ClassName>; documented semantics of stdlib containers",
            ]
            + self.trusted,
            "wall_s": round(wall, 3),
            "violations": len(violations),
        }
        if self.selftest is not None:
            ev["coverage"]["selftest"] = self.selftest
        with open(os.path.join(evdir, f"{self.pid}.json"), "w", encoding="utf-8") as f:
            json.dump(ev, f, indent=1, default=str)
        if not self.quiet:
            print(
                f"{self.pid} [{self.tier}] rules={len(self.rules)} obligations={len(self.obligations)} discharged={discharged} "
                f"known={len(known_hits)} violations={len(violations)} advisory={len(self.advisories)} wall={wall:.2f}s"
            )
            for rid, r in self.rules.items():
                bad = sum(1 for o in self.obligations if o.rule == rid and not o.ok)
                print(f"  {rid:8s} instances={r['instances']:3d} floor={r['floor']:3d} falsified={bad}  {r['text'][:100]}")
            for e, o in known_hits:
                print(f"KNOWN-FINDING: property={self.pid} {e.get('what')} [{o.rule} @ {o.site}]")
            for ln in lines:
                print(ln)
            for m in self.inconclusive:
                print(f"ANALYSIS-ERROR property={self.pid} {m}")
        code = 1 if violations else (2 if self.inconclusive else 0)
        self.result = {"violations": violations, "known": known_hits, "inconclusive": self.inconclusive, "code": code}
        if exit_process:
            sys.stdout.flush()
            sys.exit(code)
        return code
