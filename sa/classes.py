"""Class table over the package: bases resolved by name inside the repo, linearised MRO, methods, decorators, actor model."""
from __future__ import annotations

import ast
from typing import Optional

from . import source
from .source import AnchorMissing, FUNC_TYPES, Repo, dotted, last_attr, walk_body


class ClassInfo:
    def __init__(self, node: ast.ClassDef, module: source.Module):
        self.node = node
        self.module = module
        self.name = node.name
        self.qualname = source.qualname(node)
        self.base_names = [last_attr(b) for b in node.bases]
        self.methods = {n.name: n for n in node.body if isinstance(n, FUNC_TYPES)}

    def __repr__(self):
        return f"<class {self.module.relpath}:{self.qualname}>"


class ClassTable:
    def __init__(self, repo: Repo, files: Optional[list[str]] = None):
        self.repo = repo
        self.classes: list[ClassInfo] = []
        self.by_name: dict[str, list[ClassInfo]] = {}
        mods = [repo.module(f) for f in files] if files else repo.all_modules()
        for m in mods:
            for c in m.classes():
                ci = ClassInfo(c, m)
                self.classes.append(ci)
                self.by_name.setdefault(ci.name, []).append(ci)

    def get(self, name: str, module: Optional[str] = None) -> ClassInfo:
        cands = self.by_name.get(name, [])
        if module:
            cands = [c for c in cands if c.module.relpath == module]
        if not cands:
            raise AnchorMissing(f"class {name} not found" + (f" in {module}" if module else ""))
        return cands[0]

    def resolve_base(self, ci: ClassInfo, base_name: str) -> Optional[ClassInfo]:
        cands = self.by_name.get(base_name, [])
        if not cands:
            return None
        same = [c for c in cands if c.module is ci.module]
        return (same or cands)[0]

    def mro(self, ci: ClassInfo) -> list[ClassInfo]:
        out, seen = [], set()

        def rec(c: ClassInfo):
            if id(c) in seen:
                return
            seen.add(id(c))
            out.append(c)
            for b in c.base_names:
                if b:
                    bc = self.resolve_base(c, b)
                    if bc is not None:
                        rec(bc)

        rec(ci)
        return out

    def all_base_names(self, ci: ClassInfo) -> set[str]:
        names = set()
        for c in self.mro(ci):
            names.update(b for b in c.base_names if b)
        return names

    def method(self, ci: ClassInfo, name: str):
        for c in self.mro(ci):
            if name in c.methods:
                return c.methods[name]
        return None

    def subclasses(self, base: str) -> list[ClassInfo]:
        return [c for c in self.classes if base in self.all_base_names(c)]


# ---------------------------------------------------------------------------------------------------------
# actor model

ACTOR_BASES = {"RallyActor", "ActorTypeDispatcher", "Actor"}
FAILURE_MESSAGES = {"BenchmarkFailure", "BenchmarkCancelled"}


def decorator_names(func) -> list[str]:
    out = []
    for d in func.decorator_list:
        if isinstance(d, ast.Call):
            out.append(dotted(d.func) or "")
        else:
            out.append(dotted(d) or "")
    return out


def no_retry_is_sound(repo: Repo) -> tuple[bool, str, ast.AST]:
    """O9.1: actor.no_retry wraps the handler call in try/except BaseException (or bare) and sends BenchmarkFailure to sender."""
    m = repo.module("esrally/actor.py")
    f = m.func("no_retry")
    inner = [n for n in f.body if isinstance(n, FUNC_TYPES)]
    if not inner:
        return False, "no_retry defines no inner guard function", f
    # it must return the inner guard
    rets = [n for n in f.body if isinstance(n, ast.Return)]
    if not rets or not isinstance(rets[-1].value, ast.Name) or rets[-1].value.id != inner[0].name:
        return False, "no_retry does not return its guard function", f
    g = inner[0]
    handler_param = source.params_of(f)[0]
    gparams = source.params_of(g)
    if len(gparams) < 3:
        return False, "guard signature is not (self, msg, sender)", g
    sender = gparams[2]
    for st in g.body:
        if isinstance(st, ast.Try):
            calls_f = any(isinstance(n, ast.Call) and isinstance(n.func, ast.Name) and n.func.id == handler_param for b in st.body for n in source.walk_local(b))
            if not calls_f:
                continue
            # the handler call must not also appear outside the try
            for h in st.handlers:
                broad = h.type is None or last_attr(h.type) == "BaseException"
                if not broad:
                    continue
                for n in (x for b in h.body for x in source.walk_local(b)):
                    if isinstance(n, ast.Call) and last_attr(n.func) == "send" and len(n.args) >= 2:
                        tgt, payload = n.args[0], n.args[1]
                        if isinstance(tgt, ast.Name) and tgt.id == sender and isinstance(payload, ast.Call) and last_attr(payload.func) == "BenchmarkFailure":
                            # no re-raise after? fine either way. The send must not be conditional.
                            from .cfg import guards

                            if not guards(n, stop=h):
                                return True, "try/except BaseException -> send(sender, BenchmarkFailure)", st
            return False, "guard's try has no BaseException handler that unconditionally sends BenchmarkFailure to sender", st
    return False, "guard does not call the handler inside a try", g


def is_failure_send(call: ast.AST) -> bool:
    return (
        isinstance(call, ast.Call)
        and last_attr(call.func) in ("send", "ask", "tell")
        and len(call.args) >= 2
        and isinstance(call.args[1], ast.Call)
        and last_attr(call.args[1].func) in ("BenchmarkFailure",)
    )


def handler_guard(func) -> Optional[str]:
    """How a receiveMsg_* handler is guarded: 'no_retry', 'try', or None."""
    for d in decorator_names(func):
        if d.split(".")[-1] == "no_retry":
            return "no_retry"
    body = [s for s in func.body if not (isinstance(s, ast.Expr) and isinstance(s.value, ast.Constant))]
    # leading comments vanish in the AST; accept a body that is a single Try (optionally preceded by pure logging)
    non_log = [s for s in body if not is_logging_stmt(s)]
    if len(non_log) == 1 and isinstance(non_log[0], ast.Try):
        t = non_log[0]
        for h in t.handlers:
            tn = None if h.type is None else last_attr(h.type)
            if h.type is None or tn in ("Exception", "BaseException"):
                sends = [n for b in h.body for n in source.walk_local(b) if is_failure_send(n)]
                from .cfg import guards

                if any(not guards(n, stop=h) for n in sends):
                    return "try"
    return None


def is_logging_call(n: ast.AST) -> bool:
    if not isinstance(n, ast.Call):
        return False
    if isinstance(n.func, ast.Attribute) and n.func.attr in ("debug", "info", "warning", "error", "exception", "critical") and isinstance(n.func.value, ast.Call) \
            and (dotted(n.func.value.func) or "") == "logging.getLogger":
        return True
    d = dotted(n.func) or ""
    parts = d.split(".")
    if len(parts) >= 2 and parts[-1] in ("debug", "info", "warning", "error", "exception", "critical", "warn", "log"):
        return "logger" in parts[-2].lower() or parts[-2] in ("logging", "console")
    return False


def is_logging_stmt(s: ast.stmt) -> bool:
    return isinstance(s, ast.Expr) and is_logging_call(s.value)


class ActorModel:
    """Actors (subclasses of RallyActor), their handlers, address attributes and message constructions."""

    FILES = ["esrally/actor.py", "esrally/driver/driver.py", "esrally/racecontrol.py", "esrally/mechanic/mechanic.py"]

    def __init__(self, repo: Repo):
        self.repo = repo
        self.table = ClassTable(repo)
        self.actors = [c for c in self.table.classes if "RallyActor" in self.table.all_base_names(c)]
        # message classes: every class defined in the package named by a receiveMsg_<Name> handler or constructed as a send payload
        self.handler_names: dict[str, list[tuple[ClassInfo, ast.AST]]] = {}
        for a in self.actors:
            for name, f in a.methods.items():
                if name.startswith("receiveMsg_"):
                    self.handler_names.setdefault(name[len("receiveMsg_") :], []).append((a, f))

    def actor(self, name: str) -> ClassInfo:
        for a in self.actors:
            if a.name == name:
                return a
        raise AnchorMissing(f"actor class {name} not found")

    def handlers(self, a: ClassInfo) -> dict:
        out = {n: f for n, f in a.methods.items() if n.startswith("receiveMsg_")}
        if "receiveUnrecognizedMessage" in a.methods:
            out["receiveUnrecognizedMessage"] = a.methods["receiveUnrecognizedMessage"]
        return out

    def is_package_message(self, name: str) -> bool:
        return name in self.table.by_name

    def address_attrs(self, a: ClassInfo) -> dict[str, list]:
        """self.<attr> assigned from a handler's sender parameter (3rd positional) or from createActor."""
        out: dict[str, list] = {}
        for name, f in a.methods.items():
            ps = source.params_of(f)
            sender = ps[2] if name.startswith("receive") and len(ps) >= 3 else None
            for n in walk_body(f):
                if isinstance(n, ast.Assign) and len(n.targets) == 1 and source.is_self_attr(n.targets[0]):
                    v = n.value
                    if sender and isinstance(v, ast.Name) and v.id == sender:
                        out.setdefault(n.targets[0].attr, []).append((name, "sender", n))
                    elif sender and isinstance(v, ast.Call) and source.dotted(v.func) == "getattr" and len(v.args) == 3 and source.is_const(v.args[1], "reply_to") \
                            and isinstance(v.args[2], ast.Name) and v.args[2].id == sender:
                        # the requester stamped into the message by a dispatcher, else the sender: an address either way
                        out.setdefault(n.targets[0].attr, []).append((name, "sender", n))
                    elif isinstance(v, ast.Call) and last_attr(v.func) == "createActor":
                        out.setdefault(n.targets[0].attr, []).append((name, "createActor", n))
        return out

    def method_closure(self, a: ClassInfo, f, extra_classes: Optional[dict] = None, depth: int = 6) -> list:
        """Functions reachable from f through self.m() calls (MRO-resolved) and through `self.<attr>.m()` where the attribute's class
        is given in extra_classes {attr: ClassInfo}. Returns list of function nodes including f."""
        seen, out = set(), []
        work = [(a, f, 0)]
        while work:
            ci, fn, d = work.pop()
            if id(fn) in seen:
                continue
            seen.add(id(fn))
            out.append((ci, fn))
            if d >= depth:
                continue
            for n in walk_body(fn):
                if isinstance(n, ast.Call) and isinstance(n.func, ast.Attribute):
                    recv = n.func.value
                    if isinstance(recv, ast.Name) and recv.id == "self":
                        m = self.table.method(ci, n.func.attr)
                        if m is not None:
                            work.append((ci, m, d + 1))
                    elif source.is_self_attr(recv) and extra_classes and recv.attr in extra_classes.get(ci.name, {}):
                        tci = extra_classes[ci.name][recv.attr]
                        m = self.table.method(tci, n.func.attr)
                        if m is not None:
                            work.append((tci, m, d + 1))
                # bound methods passed as arguments: self.m as callback
                if isinstance(n, ast.Call):
                    for arg in list(n.args) + [k.value for k in n.keywords]:
                        if source.is_self_attr(arg):
                            m = self.table.method(ci, arg.attr)
                            if m is not None:
                                work.append((ci, m, d + 1))
        return out
