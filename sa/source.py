"""Source model: parses /repo's current working tree (or an in-memory overlay) into ASTs with parent links.

Nothing from esrally is imported or executed. Stdlib only.
"""
from __future__ import annotations

import ast
import hashlib
import os
import re
from typing import Callable, Iterable, Iterator, Optional

REPO_ROOT = os.environ.get("VERIF_REPO", "/repo")


class AnchorMissing(Exception):
    """An anchor role could not be located: the analysis is inconclusive (exit 2), never a pass and never a violation."""


FUNC_TYPES = (ast.FunctionDef, ast.AsyncFunctionDef)
SCOPE_TYPES = (ast.FunctionDef, ast.AsyncFunctionDef, ast.ClassDef, ast.Lambda)


def set_parents(tree: ast.AST) -> None:
    for node in ast.walk(tree):
        for child in ast.iter_child_nodes(node):
            child._parent = node  # type: ignore[attr-defined]
    tree._parent = None  # type: ignore[attr-defined]


def parent(node: ast.AST) -> Optional[ast.AST]:
    return getattr(node, "_parent", None)


def ancestors(node: ast.AST) -> Iterator[ast.AST]:
    p = parent(node)
    while p is not None:
        yield p
        p = parent(p)


def enclosing(node: ast.AST, types) -> Optional[ast.AST]:
    for a in ancestors(node):
        if isinstance(a, types):
            return a
    return None


def enclosing_func(node: ast.AST):
    return enclosing(node, FUNC_TYPES)


def enclosing_class(node: ast.AST):
    return enclosing(node, ast.ClassDef)


def enclosing_stmt(node: ast.AST) -> ast.stmt:
    n = node
    while n is not None and not isinstance(n, ast.stmt):
        n = parent(n)
    return n  # type: ignore[return-value]


def qualname(node: ast.AST) -> str:
    parts = []
    n: Optional[ast.AST] = node
    while n is not None:
        if isinstance(n, (ast.FunctionDef, ast.AsyncFunctionDef, ast.ClassDef)):
            parts.append(n.name)
        n = parent(n)
    return ".".join(reversed(parts))


def walk_local(node: ast.AST, include_root: bool = True) -> Iterator[ast.AST]:
    """Walk a function/statement body without descending into nested function/class/lambda scopes."""
    stack = [node] if include_root else list(ast.iter_child_nodes(node))
    first = include_root
    while stack:
        n = stack.pop()
        yield n
        if isinstance(n, SCOPE_TYPES) and not (first and n is node):
            continue
        first = False
        stack.extend(reversed(list(ast.iter_child_nodes(n))))


def walk_body(func: ast.AST) -> Iterator[ast.AST]:
    """All nodes of a function's own body (nested defs appear as nodes but are not entered)."""
    for stmt in getattr(func, "body", []):
        yield from walk_local(stmt)


def u(node: Optional[ast.AST]) -> str:
    """Canonical text of a node (normalises whitespace, quotes, parentheses)."""
    if node is None:
        return "<none>"
    try:
        return ast.unparse(node)
    except Exception:  # pragma: no cover
        return ast.dump(node)


def short(node: ast.AST, n: int = 110) -> str:
    s = " ".join(u(node).split())
    return s if len(s) <= n else s[: n - 3] + "..."


def dotted(node: ast.AST) -> Optional[str]:
    """'a.b.c' for Name/Attribute chains, else None."""
    parts = []
    n = node
    while isinstance(n, ast.Attribute):
        parts.append(n.attr)
        n = n.value
    if isinstance(n, ast.Name):
        parts.append(n.id)
        return ".".join(reversed(parts))
    return None


def call_name(call: ast.AST) -> Optional[str]:
    if isinstance(call, ast.Call):
        return dotted(call.func)
    return None


def last_attr(node: ast.AST) -> Optional[str]:
    if isinstance(node, ast.Attribute):
        return node.attr
    if isinstance(node, ast.Name):
        return node.id
    return None


def is_self_attr(node: ast.AST, attr: Optional[str] = None) -> bool:
    return (
        isinstance(node, ast.Attribute)
        and isinstance(node.value, ast.Name)
        and node.value.id == "self"
        and (attr is None or node.attr == attr)
    )


def const(node: ast.AST):
    """Python value of a literal node, or raises ValueError."""
    try:
        return ast.literal_eval(node)
    except Exception as e:
        raise ValueError(str(e))


def is_const(node: ast.AST, value=None) -> bool:
    if not isinstance(node, ast.Constant):
        return False
    return value is None or (node.value == value and type(node.value) is type(value))


_NEG_CMP = {ast.Lt: ast.GtE, ast.Gt: ast.LtE, ast.LtE: ast.Gt, ast.GtE: ast.Lt, ast.Eq: ast.NotEq, ast.NotEq: ast.Eq, ast.Is: ast.IsNot, ast.IsNot: ast.Is, ast.In: ast.NotIn, ast.NotIn: ast.In}


class Normalise(ast.NodeTransformer):
    """Behaviour-preserving canonicalisation applied to every module before analysis, so that rules see ONE shape for common variants:
      N1  x = x <op> k            ->  x <op>= k          (names and attributes)
      N2  not (a <cmp> b)         ->  a <negated cmp> b   (single comparisons; `not x is None` -> `x is not None`)
      N3  if not c: A else: B     ->  if c: B else: A     (two-armed ifs whose else is not an elif; also conditional expressions);
          likewise `!=`, `not in`, `is not`, `>=`, `<=` tests of two-armed ifs become `==`, `in`, `is`, `<`, `>` with the arms swapped
      N5  tmp = E; return tmp     ->  return E            (every occurrence of tmp in the function is such an assign-then-return pair)
      N6  if a: (if b: X)         ->  if a and b: X       (neither if has an else; the inner if is the only statement of the outer one)
      N7  x: T = v                ->  x = v               (annotated assignment with a value)
    Positions are kept (copy_location), nothing is evaluated."""

    def visit_Assign(self, n):
        self.generic_visit(n)
        if len(n.targets) == 1 and isinstance(n.targets[0], (ast.Name, ast.Attribute)) and isinstance(n.value, ast.BinOp) and isinstance(n.value.op, (ast.Add, ast.Sub, ast.Mult)) \
                and ast.dump(n.value.left) == ast.dump(n.targets[0]).replace("ctx=Store()", "ctx=Load()"):
            return ast.copy_location(ast.AugAssign(target=n.targets[0], op=n.value.op, value=n.value.right), n)
        return n

    # N7  x: T = v   ->   x = v      (annotated assignments with a value; a bare declaration `x: T` is dropped to `pass`-free nothing)
    def visit_AnnAssign(self, n):
        self.generic_visit(n)
        if n.value is not None and isinstance(n.target, (ast.Name, ast.Attribute, ast.Subscript)):
            return self.visit_Assign(ast.copy_location(ast.Assign(targets=[n.target], value=n.value), n)) if isinstance(n.target, (ast.Name, ast.Attribute)) \
                else ast.copy_location(ast.Assign(targets=[n.target], value=n.value), n)
        return n

    def visit_UnaryOp(self, n):
        self.generic_visit(n)
        if isinstance(n.op, ast.Not) and isinstance(n.operand, ast.Compare) and len(n.operand.ops) == 1 and type(n.operand.ops[0]) in _NEG_CMP:
            c = n.operand
            return ast.copy_location(ast.Compare(left=c.left, ops=[_NEG_CMP[type(c.ops[0])]()], comparators=c.comparators), n)
        if isinstance(n.op, ast.Not) and isinstance(n.operand, ast.UnaryOp) and isinstance(n.operand.op, ast.Not) and isinstance(getattr(n, "_boolctx", None), bool):
            return n.operand.operand
        return n

    _POS = {ast.NotEq: ast.Eq, ast.NotIn: ast.In, ast.IsNot: ast.Is, ast.GtE: ast.Lt, ast.LtE: ast.Gt}

    def _positive(self, test):
        """(new test, swapped?) — canonical polarity of a two-armed condition: no leading `not`, and ==, in, is, <, > rather than their negations."""
        if isinstance(test, ast.UnaryOp) and isinstance(test.op, ast.Not):
            return test.operand, True
        if isinstance(test, ast.Compare) and len(test.ops) == 1 and type(test.ops[0]) in self._POS:
            return ast.copy_location(ast.Compare(left=test.left, ops=[self._POS[type(test.ops[0])]()], comparators=test.comparators), test), True
        return test, False

    def visit_If(self, n):
        self.generic_visit(n)
        if n.orelse and not (len(n.orelse) == 1 and isinstance(n.orelse[0], ast.If)):
            t, sw = self._positive(n.test)
            if sw:
                n.test, n.body, n.orelse = t, n.orelse, n.body
                if getattr(n, "_synthetic_arm", None):
                    n._synthetic_arm = "body" if n._synthetic_arm == "orelse" else "orelse"  # the arm that N8 created moved with the swap
        # N6  if a: (if b: X)   ->  if a and b: X      (neither has an else; the inner if is the only statement)
        if os.environ.get("SA_N6", "1") != "0" and not n.orelse and len(n.body) == 1 and isinstance(n.body[0], ast.If) and not n.body[0].orelse:
            inner = n.body[0]
            vals = []
            for t in (n.test, inner.test):
                vals += t.values if isinstance(t, ast.BoolOp) and isinstance(t.op, ast.And) else [t]
            n.test = ast.copy_location(ast.BoolOp(op=ast.And(), values=vals), n.test)
            n.body = inner.body
        return n

    def visit_IfExp(self, n):
        self.generic_visit(n)
        t, sw = self._positive(n.test)
        if sw:
            n.test, n.body, n.orelse = t, n.orelse, n.body
        return n

    # N5  tmp = E; return tmp   ->  return E     (tmp bound once and read once in the whole function)
    def _fold_return_temps(self, f):
        counts: dict = {}
        for x in ast.walk(f):
            if isinstance(x, ast.Name):
                counts[x.id] = counts.get(x.id, 0) + 1

        def pairs_in(b):
            for i in range(len(b) - 1):
                st, nx = b[i], b[i + 1]
                if isinstance(st, ast.Assign) and len(st.targets) == 1 and isinstance(st.targets[0], ast.Name) and isinstance(nx, ast.Return) and isinstance(nx.value, ast.Name) \
                        and nx.value.id == st.targets[0].id:
                    yield i, st.targets[0].id

        blocks = [b for node in ast.walk(f) for field in ("body", "orelse", "finalbody") for b in [getattr(node, field, None)]
                  if isinstance(b, list) and len(b) >= 2 and isinstance(b[0], ast.stmt)]
        npairs: dict = {}
        for b in blocks:
            for _, nm in pairs_in(b):
                npairs[nm] = npairs.get(nm, 0) + 1
        # a temp is folded only if EVERY occurrence of the name in the function belongs to such an assign-then-return pair
        ok = {nm for nm, k in npairs.items() if counts.get(nm) == 2 * k}
        if not ok:
            return
        for node in ast.walk(f):
            for field in ("body", "orelse", "finalbody"):
                b = getattr(node, field, None)
                if not (isinstance(b, list) and len(b) >= 2 and isinstance(b[0], ast.stmt)):
                    continue
                idx = {i for i, nm in pairs_in(b) if nm in ok}
                if not idx:
                    continue
                out, i = [], 0
                while i < len(b):
                    if i in idx:
                        out.append(ast.copy_location(ast.Return(value=b[i].value), b[i]))
                        i += 2
                    else:
                        out.append(b[i])
                        i += 1
                setattr(node, field, out)

    def visit_FunctionDef(self, n):
        self.generic_visit(n)
        if os.environ.get("SA_N5", "1") != "0":
            self._fold_return_temps(n)
        return n

    visit_AsyncFunctionDef = visit_FunctionDef


_CONST_NAME = re.compile(r"^_?[A-Z][A-Z0-9_]*$")


def _pure_literal(v, depth=0) -> bool:
    """literals whose value cannot change: numbers, strings, None/bool, -k, tuples / lists / sets / dicts of such, frozenset(...) / tuple(...) / set(...) of one such"""
    if depth > 4:
        return False
    if isinstance(v, ast.Constant):
        return True
    if isinstance(v, ast.UnaryOp) and isinstance(v.op, ast.USub) and isinstance(v.operand, ast.Constant):
        return True
    if isinstance(v, (ast.Tuple, ast.List, ast.Set)):
        return all(_pure_literal(e, depth + 1) for e in v.elts)
    if isinstance(v, ast.Dict):
        return all(k is not None and _pure_literal(k, depth + 1) and _pure_literal(x, depth + 1) for k, x in zip(v.keys, v.values))
    if isinstance(v, ast.Call) and isinstance(v.func, ast.Name) and v.func.id in ("frozenset", "tuple", "set") and len(v.args) == 1 and not v.keywords:
        return _pure_literal(v.args[0], depth + 1)
    return False


def propagate_constants(tree: ast.Module) -> ast.Module:
    """N9  NAME = <literal> at module level (or in a class body), CONSTANT_CASE, bound exactly once and never re-bound / declared global / deleted anywhere in the module:
    every load of NAME (resp. of self.NAME / cls.NAME / <Class>.NAME) inside a function is replaced by the literal. A "named constant" refactoring (a literal moved to
    module or class level) is thereby invisible to the rules; nothing else changes (the defining assignment stays)."""
    if os.environ.get("SA_N9", "1") == "0":
        return tree
    stores: dict = {}
    for n in ast.walk(tree):
        if isinstance(n, ast.Name) and isinstance(n.ctx, (ast.Store, ast.Del)):
            stores[n.id] = stores.get(n.id, 0) + 1
        elif isinstance(n, (ast.Global, ast.Nonlocal)):
            for nm in n.names:
                stores[nm] = stores.get(nm, 0) + 2
        elif isinstance(n, (ast.FunctionDef, ast.AsyncFunctionDef, ast.ClassDef)):
            stores[n.name] = stores.get(n.name, 0) + 2
        elif isinstance(n, ast.arg):
            stores[n.arg] = stores.get(n.arg, 0) + 2
        elif isinstance(n, ast.alias):
            nm = (n.asname or n.name).split(".")[0]
            stores[nm] = stores.get(nm, 0) + 2
    attr_stores = {n.attr for n in ast.walk(tree) if isinstance(n, ast.Attribute) and isinstance(n.ctx, (ast.Store, ast.Del))}
    mod_consts = {}
    for st in tree.body:
        if isinstance(st, ast.Assign) and len(st.targets) == 1 and isinstance(st.targets[0], ast.Name) and _CONST_NAME.match(st.targets[0].id) \
                and stores.get(st.targets[0].id) == 1 and _pure_literal(st.value):
            mod_consts[st.targets[0].id] = st.value
    cls_consts: dict = {}
    for c in ast.walk(tree):
        if isinstance(c, ast.ClassDef):
            # members of an enumeration are objects, not their raw values (`x is K.MEMBER`, `K.MEMBER == "raw"` is False for a plain Enum): never propagated
            if any(re.search(r"Enum|Flag", ast.unparse(b)) for b in c.bases) or any(isinstance(k.value, ast.Name) and re.search(r"Enum", k.value.id) for k in c.keywords):
                continue
            for st in c.body:
                if isinstance(st, ast.Assign) and len(st.targets) == 1 and isinstance(st.targets[0], ast.Name) and _CONST_NAME.match(st.targets[0].id) and _pure_literal(st.value) \
                        and st.targets[0].id not in attr_stores and sum(1 for x in c.body if isinstance(x, ast.Assign) and any(isinstance(t, ast.Name) and t.id == st.targets[0].id for t in x.targets)) == 1:
                    cls_consts.setdefault(st.targets[0].id, []).append((c.name, st.value))
    # a class constant is propagated only if its name is unique among the classes of the module (no overriding in a subclass to worry about)
    cls_consts = {k: v[0] for k, v in cls_consts.items() if len(v) == 1}
    # a MUTABLE display (list / set / dict) is one shared object: it is propagated only when every use of the name in the module is read-only (iteration, membership,
    # subscript load, read-only methods, pure builtins) - `ctx = _SHARED` or `_SHARED.append(x)` keep the name, so that sharing stays visible to the rules
    def _mutable(v):
        return isinstance(v, (ast.List, ast.Set, ast.Dict)) or (isinstance(v, ast.Call) and isinstance(v.func, ast.Name) and v.func.id == "set")

    def _read_only_uses(name, is_attr):
        par = {}
        for n in ast.walk(tree):
            for c in ast.iter_child_nodes(n):
                par[id(c)] = n
        RO_M = {"get", "items", "keys", "values", "index", "count", "copy", "union", "intersection", "difference", "issubset", "issuperset", "isdisjoint"}
        RO_F = {"len", "sorted", "tuple", "list", "set", "frozenset", "dict", "enumerate", "zip", "any", "all", "min", "max", "sum", "iter", "reversed", "isinstance", "str", "repr"}
        for n in ast.walk(tree):
            hit = (isinstance(n, ast.Attribute) and n.attr == name and isinstance(n.ctx, ast.Load)) if is_attr else (isinstance(n, ast.Name) and n.id == name and isinstance(n.ctx, ast.Load))
            if not hit:
                continue
            p_ = par.get(id(n))
            ok = (isinstance(p_, (ast.For, ast.AsyncFor, ast.comprehension)) and p_.iter is n) or \
                 (isinstance(p_, ast.Compare) and n in p_.comparators and all(isinstance(o, (ast.In, ast.NotIn, ast.Eq, ast.NotEq)) for o in p_.ops)) or \
                 (isinstance(p_, ast.Subscript) and p_.value is n and isinstance(p_.ctx, ast.Load)) or \
                 (isinstance(p_, ast.Attribute) and p_.value is n and p_.attr in RO_M and isinstance(par.get(id(p_)), ast.Call) and par[id(p_)].func is p_) or \
                 (isinstance(p_, ast.Call) and n in p_.args and isinstance(p_.func, ast.Name) and p_.func.id in RO_F) or \
                 (isinstance(p_, ast.Starred))
            if not ok:
                return False
        return True

    mod_consts = {k: v for k, v in mod_consts.items() if not _mutable(v) or _read_only_uses(k, False)}
    cls_consts = {k: v for k, v in cls_consts.items() if not _mutable(v[1]) or _read_only_uses(k, True)}
    if not mod_consts and not cls_consts:
        return tree

    def lit(v, at):
        new = ast.parse(ast.unparse(v), mode="eval").body
        for x in ast.walk(new):
            ast.copy_location(x, at)
        new._from_constant = True  # type: ignore[attr-defined]
        return new

    class P(ast.NodeTransformer):
        def __init__(self):
            self.depth = 0

        def _fn(self, n):
            self.depth += 1
            self.generic_visit(n)
            self.depth -= 1
            return n

        visit_FunctionDef = visit_AsyncFunctionDef = visit_Lambda = _fn

        def visit_Name(self, n):
            if self.depth and isinstance(n.ctx, ast.Load) and n.id in mod_consts:
                return lit(mod_consts[n.id], n)
            return n

        def visit_Attribute(self, n):
            self.generic_visit(n)
            if self.depth and isinstance(n.ctx, ast.Load) and n.attr in cls_consts and isinstance(n.value, ast.Name) and n.value.id in ("self", "cls", cls_consts[n.attr][0]):
                return lit(cls_consts[n.attr][1], n)
            return n

    return P().visit(tree)


def _terminates(stmts) -> bool:
    """the statement list cannot complete normally (its last statement is return / raise / continue / break, or an if/else both of whose arms cannot)."""
    if not stmts:
        return False
    last = stmts[-1]
    if isinstance(last, (ast.Return, ast.Raise, ast.Continue, ast.Break)):
        return True
    if isinstance(last, ast.If) and last.orelse:
        return _terminates(last.body) and _terminates(last.orelse)
    return False


def _guard_arm(stmts) -> bool:
    """a short straight-line arm that ends in a jump: a few simple statements (logging, clean-up call, building the message) and then return / raise / continue / break."""
    return bool(stmts) and len(stmts) <= 6 and isinstance(stmts[-1], (ast.Return, ast.Raise, ast.Continue, ast.Break)) and all(isinstance(x, (ast.Expr, ast.Assign, ast.AugAssign)) for x in stmts[:-1])


def else_after_jump(tree: ast.AST) -> ast.AST:
    """N8  if c: A(jumps)\n rest   ->   if c: A(jumps) else: rest     — guard clauses and if/else read the same; applied bottom-up to every statement list."""
    for node in list(ast.walk(tree)):
        for field in ("body", "orelse", "finalbody"):
            b = getattr(node, field, None)
            if not (isinstance(b, list) and b and isinstance(b[0], ast.stmt)):
                continue
            # an explicit if/else one arm of which jumps reads like the guard clause it is equivalent to: the other arm is the continuation
            for st in b:
                if isinstance(st, ast.If) and st.orelse and not getattr(st, "_synthetic_arm", None):
                    gb, ge = _guard_arm(st.body), _guard_arm(st.orelse)
                    if gb and ge and isinstance(st.body[-1], ast.Raise) != isinstance(st.orelse[-1], ast.Raise):
                        # both arms are short jumps: the one that raises is the rejection, the other one the continuation
                        gb, ge = isinstance(st.body[-1], ast.Raise), isinstance(st.orelse[-1], ast.Raise)
                    if gb and not ge:
                        st._synthetic_arm = "orelse"  # type: ignore[attr-defined]
                    elif ge and not gb:
                        st._synthetic_arm = "body"  # type: ignore[attr-defined]
            # right-to-left so that the innermost rest is folded first
            i = len(b) - 2
            while i >= 0:
                st = b[i]
                if isinstance(st, ast.If) and not st.orelse and _terminates(st.body) and i + 1 < len(b):
                    st.orelse = b[i + 1:]
                    st._synthetic_arm = "orelse"  # type: ignore[attr-defined]
                    del b[i + 1:]
                i -= 1
    return tree


def flat(stmts) -> list:
    """the statements of a block as written: the rest of a block that N8 moved into the synthetic else of a guard clause is listed after the guard clause again."""
    out = []
    for st in stmts:
        out.append(st)
        arm = getattr(st, "_synthetic_arm", None) if isinstance(st, ast.If) else None
        if arm:
            out += flat(getattr(st, arm))
    return out


def walk_explicit(n: ast.AST):
    """ast.walk that does not descend into the synthetic arm N8 gave a guard clause (i.e. stays inside the statement as written)."""
    todo = [n]
    while todo:
        x = todo.pop()
        yield x
        arm = getattr(x, "_synthetic_arm", None) if isinstance(x, ast.If) else None
        for f_, v in ast.iter_fields(x):
            if arm and f_ == arm:
                continue
            if isinstance(v, list):
                todo.extend(c for c in v if isinstance(c, ast.AST))
            elif isinstance(v, ast.AST):
                todo.append(v)


def logical_parent(n: ast.AST) -> Optional[ast.AST]:
    """parent of n in the source as written: synthetic else arms (N8) are transparent."""
    p = getattr(n, "_parent", None)
    c = n
    while isinstance(p, ast.If) and getattr(p, "_synthetic_arm", None) and any(c is s_ for s_ in getattr(p, p._synthetic_arm)):
        c, p = p, getattr(p, "_parent", None)
    return p


class Module:
    def __init__(self, repo: "Repo", relpath: str, text: str):
        self.repo = repo
        self.relpath = relpath
        self.text = text
        self.sha = hashlib.sha256(text.encode("utf-8")).hexdigest()
        self.tree = ast.parse(text, filename=relpath)
        if os.environ.get("SA_N8", "1") != "0":
            self.tree = else_after_jump(self.tree)
        self.tree = propagate_constants(self.tree)
        self.tree = Normalise().visit(self.tree)
        ast.fix_missing_locations(self.tree)
        set_parents(self.tree)
        for n in ast.walk(self.tree):
            n._module = self  # type: ignore[attr-defined]
        self._index: Optional[dict] = None
        # import aliases: local name -> dotted module/object
        self.imports: dict[str, str] = {}
        pkg = relpath[:-3].replace("/", ".")
        self.modname = pkg[: -len(".__init__")] if pkg.endswith(".__init__") else pkg
        for n in ast.walk(self.tree):
            if isinstance(n, ast.Import):
                for a in n.names:
                    if a.asname:
                        self.imports[a.asname] = a.name
                    else:
                        self.imports[a.name.split(".")[0]] = a.name.split(".")[0]
            elif isinstance(n, ast.ImportFrom):
                base = n.module or ""
                if n.level:
                    parts = self.modname.split(".")
                    if not relpath.endswith("__init__.py"):
                        parts = parts[:-1]
                    parts = parts[: len(parts) - (n.level - 1)]
                    base = ".".join(parts + ([n.module] if n.module else []))
                for a in n.names:
                    self.imports[a.asname or a.name] = f"{base}.{a.name}"

    # -- lookup -----------------------------------------------------------------------------------
    def index(self) -> dict:
        if self._index is None:
            idx: dict[str, ast.AST] = {}
            for n in ast.walk(self.tree):
                if isinstance(n, (ast.FunctionDef, ast.AsyncFunctionDef, ast.ClassDef)):
                    idx.setdefault(qualname(n), n)
            self._index = idx
        return self._index

    def get(self, qn: str, required: bool = True):
        n = self.index().get(qn)
        if n is None and required:
            raise AnchorMissing(f"{self.relpath}: definition '{qn}' not found")
        return n

    def func(self, qn: str):
        n = self.get(qn)
        if not isinstance(n, FUNC_TYPES):
            raise AnchorMissing(f"{self.relpath}: '{qn}' is not a function")
        return n

    def cls(self, qn: str) -> ast.ClassDef:
        n = self.get(qn)
        if not isinstance(n, ast.ClassDef):
            raise AnchorMissing(f"{self.relpath}: '{qn}' is not a class")
        return n

    def classes(self) -> list[ast.ClassDef]:
        return [n for n in ast.walk(self.tree) if isinstance(n, ast.ClassDef)]

    def functions(self) -> list:
        return [n for n in ast.walk(self.tree) if isinstance(n, FUNC_TYPES)]

    def methods(self, cls: ast.ClassDef) -> dict:
        return {n.name: n for n in cls.body if isinstance(n, FUNC_TYPES)}

    def module_constant(self, name: str):
        for n in self.tree.body:
            if isinstance(n, ast.Assign) and len(n.targets) == 1 and isinstance(n.targets[0], ast.Name) and n.targets[0].id == name:
                return n.value
            if isinstance(n, ast.AnnAssign) and isinstance(n.target, ast.Name) and n.target.id == name and n.value is not None:
                return n.value
        return None

    def loc(self, node: ast.AST) -> str:
        return f"{self.relpath}:{getattr(node, 'lineno', 0)}"


def module_of(node: ast.AST) -> Module:
    return node._module  # type: ignore[attr-defined]


def loc(node: ast.AST) -> str:
    m = getattr(node, "_module", None)
    if m is None:
        return f"?:{getattr(node, 'lineno', 0)}"
    return m.loc(node)


def key(node: ast.AST, text: Optional[str] = None) -> str:
    """Stable construct key: module:qualname:<canonical statement text> (no line numbers)."""
    m = getattr(node, "_module", None)
    qn = qualname(node) if not isinstance(node, (ast.FunctionDef, ast.AsyncFunctionDef, ast.ClassDef)) else qualname(node)
    t = text if text is not None else short(node, 160)
    return f"{m.relpath if m else '?'}:{qn}:{t}"


class Repo:
    def __init__(self, root: str = REPO_ROOT, overlay: Optional[dict] = None):
        self.root = root
        self.overlay = dict(overlay or {})
        self._modules: dict[str, Module] = {}
        self._texts: dict[str, str] = {}

    def with_overlay(self, overlay: dict) -> "Repo":
        o = dict(self.overlay)
        o.update(overlay)
        return Repo(self.root, o)

    def exists(self, relpath: str) -> bool:
        return relpath in self.overlay or os.path.exists(os.path.join(self.root, relpath))

    def text(self, relpath: str) -> str:
        if relpath in self.overlay:
            return self.overlay[relpath]
        if relpath not in self._texts:
            p = os.path.join(self.root, relpath)
            if not os.path.exists(p):
                raise AnchorMissing(f"file {relpath} not found in {self.root}")
            with open(p, encoding="utf-8") as f:
                self._texts[relpath] = f.read()
        return self._texts[relpath]

    def module(self, relpath: str) -> Module:
        if relpath not in self._modules:
            try:
                self._modules[relpath] = Module(self, relpath, self.text(relpath))
            except SyntaxError as e:
                raise AnchorMissing(f"{relpath} does not parse: {e}")
        return self._modules[relpath]

    def package_files(self, pkg: str = "esrally") -> list[str]:
        out = []
        base = os.path.join(self.root, pkg)
        for d, dirs, files in os.walk(base):
            dirs[:] = sorted(x for x in dirs if x != "__pycache__")
            for f in sorted(files):
                if f.endswith(".py"):
                    out.append(os.path.relpath(os.path.join(d, f), self.root))
        for p in self.overlay:
            if p.startswith(pkg + "/") and p.endswith(".py") and p not in out:
                out.append(p)
        return sorted(out)

    def all_modules(self, pkg: str = "esrally") -> list[Module]:
        return [self.module(p) for p in self.package_files(pkg)]

    def digests(self, relpaths: Iterable[str]) -> dict:
        out = {}
        for p in relpaths:
            try:
                if p.endswith(".py"):
                    out[p] = self.module(p).sha
                else:
                    out[p] = hashlib.sha256(self.text(p).encode("utf-8")).hexdigest()
            except AnchorMissing:
                out[p] = "missing"
        return out


def find_all(root: ast.AST, pred: Callable[[ast.AST], bool], local: bool = False) -> list:
    it = walk_local(root) if local else ast.walk(root)
    return [n for n in it if pred(n)]


def calls_in(root: ast.AST, name: Optional[str] = None, attr: Optional[str] = None, local: bool = True) -> list[ast.Call]:
    """Calls under root. name: exact dotted callee; attr: last attribute/function name."""
    out = []
    it = walk_local(root) if local else ast.walk(root)
    for n in it:
        if isinstance(n, ast.Call):
            if name is not None and dotted(n.func) != name:
                continue
            if attr is not None and last_attr(n.func) != attr:
                continue
            out.append(n)
    return out


def arg_of(call: ast.Call, pos: Optional[int], kw: Optional[str]) -> Optional[ast.AST]:
    if kw is not None:
        for k in call.keywords:
            if k.arg == kw:
                return k.value
    if pos is not None and pos < len(call.args) and not any(isinstance(a, ast.Starred) for a in call.args[: pos + 1]):
        return call.args[pos]
    return None


def params_of(func) -> list[str]:
    a = func.args
    return [x.arg for x in a.posonlyargs + a.args]


def bind_args(call: ast.Call, func, skip_self: bool = True) -> dict:
    """Map callee parameter name -> argument expression at this call (positional + keyword)."""
    names = params_of(func)
    if skip_self and names and names[0] in ("self", "cls"):
        names = names[1:]
    out = {}
    for i, a in enumerate(call.args):
        if isinstance(a, ast.Starred):
            break
        if i < len(names):
            out[names[i]] = a
    kwonly = [x.arg for x in func.args.kwonlyargs]
    for k in call.keywords:
        if k.arg and (k.arg in names or k.arg in kwonly):
            out[k.arg] = k.value
    return out


def package_calls(repo: "Repo", attr: str) -> list[ast.Call]:
    """All call sites in the package whose callee's last name component is `attr` (who-may-call by unique method name)."""
    idx = getattr(repo, "_call_index", None)
    if idx is None:
        idx = {}
        for m in repo.all_modules():
            for n in ast.walk(m.tree):
                if isinstance(n, ast.Call):
                    idx.setdefault(last_attr(n.func), []).append(n)
        repo._call_index = idx
    return list(idx.get(attr, []))


def constructions(repo: "Repo", cls_name: str) -> list[ast.Call]:
    return package_calls(repo, cls_name)


def clone(expr: ast.AST) -> ast.AST:
    return ast.parse(u(expr), mode="eval").body


def local_defs(func) -> dict:
    """name -> value expr for locals assigned exactly once in the function (simple Name targets, not loop variables)."""
    counts, vals = {}, {}
    for n in walk_body(func):
        if isinstance(n, ast.Assign):
            for t in n.targets:
                if isinstance(t, ast.Name):
                    counts[t.id] = counts.get(t.id, 0) + 1
                    vals[t.id] = n.value
                else:
                    for x in ast.walk(t):
                        if isinstance(x, ast.Name) and isinstance(x.ctx, ast.Store):
                            counts[x.id] = counts.get(x.id, 0) + 2
        elif isinstance(n, (ast.AugAssign, ast.AnnAssign)) and isinstance(n.target, ast.Name):
            counts[n.target.id] = counts.get(n.target.id, 0) + 2
        elif isinstance(n, (ast.For, ast.AsyncFor, ast.comprehension)):
            for t in ast.walk(n.target):
                if isinstance(t, ast.Name):
                    counts[t.id] = counts.get(t.id, 0) + 2
        elif isinstance(n, ast.NamedExpr) and isinstance(n.target, ast.Name):
            counts[n.target.id] = counts.get(n.target.id, 0) + 2
        elif isinstance(n, (ast.With, ast.AsyncWith)):
            for it in n.items:
                if it.optional_vars is not None:
                    for t in ast.walk(it.optional_vars):
                        if isinstance(t, ast.Name):
                            counts[t.id] = counts.get(t.id, 0) + 2
    return {k: v for k, v in vals.items() if counts.get(k) == 1}


def inline_node(expr: ast.AST, defs: dict, depth: int = 0, no_calls: bool = False) -> ast.AST:
    """Fresh copy of expr with single-assignment locals substituted by their definitions (symbolic inlining).
    no_calls: a local whose definition contains a call (clock read, I/O) stays an opaque atom — two reads are not the same value."""

    class T(ast.NodeTransformer):
        def visit_Name(self, n):
            if isinstance(n.ctx, ast.Load) and n.id in defs and depth < 10:
                d = defs[n.id]
                if no_calls and any(isinstance(x, (ast.Call, ast.Await)) for x in ast.walk(d)):
                    return n
                return inline_node(d, defs, depth + 1, no_calls)
            return n

    return T().visit(clone(expr))


def inline(expr: ast.AST, defs: dict, no_calls: bool = False) -> str:
    return u(inline_node(expr, defs, no_calls=no_calls))
