"""Decision-table extraction: abstract interpretation of a small decision function over a finite role domain.

`decide(stmts, atom, env)` walks straight-line / if / return / raise code, evaluating branch tests with `atom(node, env)` (which maps an atomic
predicate to True/False for the abstract case `env`, or None if the node is not an atom) and returns the outcome for that abstract case.
No concrete execution of repository code: tests are evaluated symbolically over the role domain supplied by the rule.
"""
from __future__ import annotations

import ast
from typing import Callable, Optional

from .source import u
from .sym import UnknownAtom, bool_eval


class Unsupported(Exception):
    pass


class Outcome:
    def __init__(self, kind: str, value: Optional[ast.AST] = None, effects: Optional[list] = None, node: Optional[ast.AST] = None):
        self.kind = kind  # return | raise | fallthrough | break | continue
        self.value = value
        self.effects = effects or []
        self.node = node

    def text(self) -> str:
        if self.kind == "return":
            return f"return {u(self.value) if self.value is not None else 'None'}"
        if self.kind == "raise":
            return f"raise {u(self.value) if self.value is not None else ''}"
        return self.kind

    def __repr__(self):
        return f"<{self.text()} effects={[u(e) for e in self.effects]}>"


def decide(stmts, atom: Callable[[ast.AST, dict], Optional[bool]], env: dict, bindings: Optional[dict] = None,
           on_stmt: Optional[Callable[[ast.stmt, dict, dict], Optional[Outcome]]] = None, effects: Optional[list] = None) -> Outcome:
    """Evaluate a statement list for the abstract case `env`.
    bindings: symbolic values of locals (name -> ast) substituted into tests (single pass).
    on_stmt: hook for statements the rule wants to interpret itself (loops, special calls); return an Outcome to stop, or None to continue
             (returning the string 'skip' means the statement was handled)."""
    b = dict(bindings or {})
    eff = effects if effects is not None else []

    def ev(test: ast.AST) -> bool:
        def at(n):
            if isinstance(n, ast.Name) and n.id in b and b[n.id] is not None:
                try:
                    return ev(b[n.id])
                except UnknownAtom:
                    pass
            return atom(n, env)

        return bool_eval(test, at)

    for s in stmts:
        if on_stmt is not None:
            r = on_stmt(s, env, b)
            if isinstance(r, Outcome):
                r.effects = eff + r.effects
                return r
            if r == "skip":
                continue
        if isinstance(s, ast.If):
            branch = s.body if ev(s.test) else s.orelse
            r = decide(branch, atom, env, b, on_stmt, eff)
            if r.kind != "fallthrough":
                return r
            b.update(getattr(r, "bindings", {}))
        elif isinstance(s, ast.Return):
            v = s.value
            if isinstance(v, ast.Name) and v.id in b and b[v.id] is not None:
                v = b[v.id]
            o = Outcome("return", v, list(eff), s)
            o.bindings = dict(b)  # type: ignore[attr-defined]
            return o
        elif isinstance(s, ast.Raise):
            o = Outcome("raise", s.exc, list(eff), s)
            o.bindings = dict(b)  # type: ignore[attr-defined]
            return o
        elif isinstance(s, ast.Break):
            return Outcome("break", None, list(eff), s)
        elif isinstance(s, ast.Continue):
            return Outcome("continue", None, list(eff), s)
        elif isinstance(s, ast.Assign) and len(s.targets) == 1 and isinstance(s.targets[0], ast.Name):
            # the value is fixed at assignment time: names bound so far are substituted now (a later re-binding of an operand must not change it)
            b[s.targets[0].id] = _subst(s.value, b)
        elif isinstance(s, (ast.Assign, ast.AugAssign, ast.AnnAssign)):
            eff.append(s)
        elif isinstance(s, ast.Expr):
            if not (isinstance(s.value, ast.Constant)):
                eff.append(s.value)
        elif isinstance(s, ast.Pass):
            pass
        elif isinstance(s, (ast.Import, ast.ImportFrom, ast.Assert)):
            pass
        else:
            raise Unsupported(f"statement kind {type(s).__name__} at line {getattr(s, 'lineno', '?')}")
    o = Outcome("fallthrough", None, list(eff))
    o.bindings = b  # type: ignore[attr-defined]
    return o


def _subst(expr: ast.AST, b: dict) -> ast.AST:
    if not any(isinstance(n, ast.Name) and isinstance(n.ctx, ast.Load) and b.get(n.id) is not None for n in ast.walk(expr)):
        return expr
    from .source import inline_node

    return inline_node(expr, {k: v for k, v in b.items() if v is not None}, depth=9)


def const_value(node: Optional[ast.AST]):
    if node is None:
        return None
    if isinstance(node, ast.Constant):
        return node.value
    if isinstance(node, ast.UnaryOp) and isinstance(node.op, ast.Not) and isinstance(node.operand, ast.Constant):
        return not node.operand.value
    raise ValueError(u(node))
