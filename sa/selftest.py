"""Both-ways battery: in-memory variants of the current source (overlay, no scratch copies).

A *breaking* variant must still compile and must be reported by the named rule; a *preserving* variant must stay silent.
The battery never changes the verdict on the real tree: its outcome is recorded in evidence (coverage.selftest) and printed.
"""
from __future__ import annotations

import importlib
import os
import re
import sys
from concurrent.futures import ProcessPoolExecutor

from . import report, source


class V:
    def __init__(self, name, kind, file, old, new, rule=None, count=1, regex=False):
        self.name = name
        self.kind = kind  # 'break' | 'keep'
        self.file = file
        self.old = old
        self.new = new
        self.rule = rule  # expected rule id (prefix) for 'break'
        self.count = count
        self.regex = regex


def apply_variant(repo: source.Repo, v) -> dict | None:
    """Returns overlay or None if the anchor text is not present exactly `count` times on this tree."""
    edits = v if isinstance(v, list) else [v]
    overlay = {}
    for e in edits:
        text = overlay.get(e.file) or repo.text(e.file)
        if e.regex:
            n = len(re.findall(e.old, text, flags=re.S))
            if n != e.count:
                return None
            text = re.sub(e.old, e.new, text, flags=re.S)
        else:
            if text.count(e.old) != e.count:
                return None
            text = text.replace(e.old, e.new)
        overlay[e.file] = text
    for p, t in overlay.items():
        if p.endswith(".py"):
            try:
                compile(t, p, "exec")
            except SyntaxError:
                return None
    return overlay


def _run_one(args):
    pid, idx = args
    sys.path.insert(0, report.VERIF)
    import check as check_mod

    mod = importlib.import_module(f"rules.{pid}")
    v = mod.VARIANTS[idx]
    head = v[0] if isinstance(v, list) else v
    base = source.Repo()
    try:
        overlay = apply_variant(base, v)
    except source.AnchorMissing:
        overlay = None
    if overlay is None:
        return {"name": head.name, "kind": head.kind, "status": "skipped", "detail": "anchor text not found on this tree (or variant does not compile)"}
    chk = check_mod.run_property(pid, "quick", repo=base.with_overlay(overlay), quiet=True)
    # evaluate without writing evidence
    for rid, r in chk.rules.items():
        if r["instances"] < r["floor"]:
            chk.inconclusive.append(f"{rid}: floor")
    known = chk._known()
    bad = [o for o in chk.obligations if not o.ok and not any(e.get("rule") == o.rule and e.get("construct") and e["construct"] in o.key for e in known)]
    rules_hit = sorted({o.rule for o in bad})
    if head.kind == "break":
        ok = bool(bad) and (head.rule is None or any(r.startswith(head.rule) for r in rules_hit))
        status = "detected" if ok else ("MISSED" if not bad and not chk.inconclusive else ("inconclusive" if not bad else "detected-by-other-rule"))
    else:
        ok = not bad and not chk.inconclusive
        status = "silent" if ok else "FALSE-ALARM"
    return {"name": head.name, "kind": head.kind, "status": status, "rules": rules_hit, "expected": head.rule,
            "inconclusive": chk.inconclusive[:2], "detail": (bad[0].detail[:160] if bad else "")}


def seeded_overlay(patch_path: str, repo_root: str):
    """Apply a seeded patch to scratch copies of the files it touches (never to /repo) and return them as an overlay; None if it does not apply."""
    import shutil
    import subprocess
    import tempfile

    text = open(patch_path, encoding="utf-8").read()
    files = re.findall(r"^\+\+\+ b/(\S+)", text, flags=re.M)
    d = tempfile.mkdtemp(prefix="verif-seed-")
    try:
        for f in files:
            src = os.path.join(repo_root, f)
            if not os.path.exists(src):
                return None
            os.makedirs(os.path.dirname(os.path.join(d, f)), exist_ok=True)
            shutil.copy(src, os.path.join(d, f))
        p = subprocess.run(["patch", "-p1", "-s", "--no-backup-if-mismatch", "-i", patch_path], cwd=d, capture_output=True, text=True)
        if p.returncode != 0:
            return None
        return {f: open(os.path.join(d, f), encoding="utf-8").read() for f in files}
    finally:
        shutil.rmtree(d, ignore_errors=True)


def _run_seed(args):
    pid, name = args
    sys.path.insert(0, report.VERIF)
    import check as check_mod

    base = source.Repo()
    ov = seeded_overlay(os.path.join(report.VERIF, "seeded", name, "patch.diff"), base.root)
    if ov is None:
        return {"name": f"seeded/{name}", "kind": "break", "status": "skipped", "detail": "patch does not apply to this tree"}
    chk = check_mod.run_property(pid, "quick", repo=base.with_overlay(ov), quiet=True)
    known = chk._known()
    bad = [o for o in chk.obligations if not o.ok and not any(e.get("rule") == o.rule and e.get("construct") and e["construct"] in o.key for e in known)]
    return {"name": f"seeded/{name}", "kind": "break", "status": "detected" if bad else ("inconclusive" if chk.inconclusive else "MISSED"), "rules": sorted({o.rule for o in bad}),
            "detail": bad[0].detail[:160] if bad else "", "inconclusive": chk.inconclusive[:2]}


def _run_benign(args):
    """A kept behaviour-preserving sub-agent change (benign/<pid>-bN): the check must stay silent; 'shape not recognised' is reported separately, never as an alarm."""
    pid, name = args
    sys.path.insert(0, report.VERIF)
    import check as check_mod

    base = source.Repo()
    ov = seeded_overlay(os.path.join(report.VERIF, "benign", name, "patch.diff"), base.root)
    if ov is None:
        return {"name": f"benign/{name}", "kind": "keep", "status": "skipped", "detail": "patch does not apply to this tree"}
    chk = check_mod.run_property(pid, "quick", repo=base.with_overlay(ov), quiet=True)
    for rid, r in chk.rules.items():
        if r["instances"] < r["floor"]:
            chk.inconclusive.append(f"{rid}: fewer instances than the confirmed floor")
    known = chk._known()
    bad = [o for o in chk.obligations if not o.ok and not any(e.get("rule") == o.rule and e.get("construct") and e["construct"] in o.key for e in known)]
    return {"name": f"benign/{name}", "kind": "keep", "status": "FALSE-ALARM" if bad else ("keep-inconclusive" if chk.inconclusive else "silent"), "rules": sorted({o.rule for o in bad}),
            "detail": bad[0].detail[:160] if bad else "", "inconclusive": chk.inconclusive[:2]}


def benign_for(pid: str) -> list[str]:
    """behaviour-preserving changes written for this property, plus those of other properties that touch a file this property's check reports on."""
    bd = os.path.join(report.VERIF, "benign")
    if not os.path.isdir(bd):
        return []
    return sorted(n for n in os.listdir(bd) if n.startswith(pid + "-") and os.path.exists(os.path.join(bd, n, "patch.diff")))


def seeded_for(pid: str) -> list[str]:
    """seeded mutants recorded as detected by (or seeded for) this property."""
    import json

    out = []
    sd = os.path.join(report.VERIF, "seeded")
    if not os.path.isdir(sd):
        return out
    for name in sorted(os.listdir(sd)):
        mp = os.path.join(sd, name, "meta.json")
        if os.path.exists(mp):
            try:
                m = json.load(open(mp))
            except ValueError:
                continue
            d = (m.get("detected_by") or {}).get(pid)
            # only a reported violation counts as "detected by this check" (an inconclusive run of another property's check on the mutant is not a detection to keep)
            if d is not None and (not isinstance(d, dict) or d.get("exit", 1) == 1 or name.startswith(pid + "-")):
                out.append(name)
    return out


def run_battery(pid: str, chk=None, jobs: int | None = None) -> dict:
    mod = importlib.import_module(f"rules.{pid}")
    variants = getattr(mod, "VARIANTS", [])
    if not variants:
        return {"variants": 0}
    jobs = jobs or min(16, os.cpu_count() or 4, len(variants))
    seeds = seeded_for(pid)
    with ProcessPoolExecutor(max_workers=jobs) as ex:
        results = list(ex.map(_run_one, [(pid, i) for i in range(len(variants))]))
        results += list(ex.map(_run_seed, [(pid, n) for n in seeds]))
        results += list(ex.map(_run_benign, [(pid, n) for n in benign_for(pid)]))
    summary = {
        "variants": len(results),
        "breaking_detected": sum(1 for r in results if r["status"] == "detected"),
        "breaking_other_rule": sum(1 for r in results if r["status"] == "detected-by-other-rule"),
        "breaking_missed": [r["name"] for r in results if r["status"] in ("MISSED", "inconclusive") and r["kind"] == "break"],
        "preserving_silent": sum(1 for r in results if r["status"] == "silent"),
        "false_alarms": [r["name"] for r in results if r["status"] == "FALSE-ALARM"],
        "skipped": [r["name"] for r in results if r["status"] == "skipped"],
        "preserving_not_recognised": [r["name"] for r in results if r["status"] == "keep-inconclusive"],
        "results": results,
    }
    if chk is None or not chk.quiet:
        print(f"SELFTEST {pid}: {summary['breaking_detected']} breaking detected, {summary['preserving_silent']} preserving silent, "
              f"missed={summary['breaking_missed']} false_alarms={summary['false_alarms']} other_rule={summary['breaking_other_rule']} skipped={summary['skipped']}")
    return summary


if __name__ == "__main__":
    sys.path.insert(0, report.VERIF)
    rc = 0
    for pid in sys.argv[1:]:
        s = run_battery(pid)
        for r in s.get("results", []):
            if r["status"] not in ("detected", "silent", "keep-inconclusive"):
                print("  ", r)
        if s.get("breaking_missed") or s.get("false_alarms") or s.get("skipped"):
            rc = 1
    sys.exit(rc)
