"""Canonicalisers (pure rewriting, no solver):
 (a) boolean structure / comparisons -> evaluation over named atoms, canonical comparison triples;
 (b) rational functions over + - * / ** (int) with opaque atoms, so that 1/(T/C/w) == w*C/T.
"""
from __future__ import annotations

import ast
import itertools
from fractions import Fraction
from typing import Callable, Optional

from .source import u

# ---------------------------------------------------------------------------------------------------------
# boolean evaluation over atoms


class UnknownAtom(Exception):
    pass


def bool_eval(expr: ast.AST, atom: Callable[[ast.AST], Optional[bool]]) -> bool:
    """Evaluate a boolean expression; `atom(node)` returns the truth value of an atomic sub-expression or None if it is not an atom."""
    v = atom(expr)
    if v is not None:
        return v
    if isinstance(expr, ast.BoolOp):
        vals = [bool_eval(x, atom) for x in expr.values]
        return all(vals) if isinstance(expr.op, ast.And) else any(vals)
    if isinstance(expr, ast.UnaryOp) and isinstance(expr.op, ast.Not):
        return not bool_eval(expr.operand, atom)
    if isinstance(expr, ast.Constant):
        return bool(expr.value)
    if isinstance(expr, ast.NamedExpr):
        return bool_eval(expr.value, atom)
    raise UnknownAtom(u(expr))


def atoms_of(expr: ast.AST) -> list[ast.AST]:
    """Leaves of the and/or/not structure."""
    if isinstance(expr, ast.BoolOp):
        out = []
        for x in expr.values:
            out += atoms_of(x)
        return out
    if isinstance(expr, ast.UnaryOp) and isinstance(expr.op, ast.Not):
        return atoms_of(expr.operand)
    return [expr]


def truth_table(expr: ast.AST, names: list[str], classify: Callable[[ast.AST], Optional[str]]):
    """Rows (assignment dict -> bool) over the named atoms. classify(node) maps an atomic node to one of `names`
    (optionally prefixed with '!' for a negated reading) or None. Raises UnknownAtom for foreign atoms."""
    rows = []
    for vals in itertools.product([False, True], repeat=len(names)):
        env = dict(zip(names, vals))

        def atom(n, env=env):
            c = classify(n)
            if c is None:
                return None
            if c.startswith("!"):
                return not env[c[1:]]
            return env[c]

        rows.append((env, bool_eval(expr, atom)))
    return rows


# ---------------------------------------------------------------------------------------------------------
# comparisons

_FLIP = {ast.Lt: ast.Gt, ast.Gt: ast.Lt, ast.LtE: ast.GtE, ast.GtE: ast.LtE, ast.Eq: ast.Eq, ast.NotEq: ast.NotEq}
_NEG = {ast.Lt: ast.GtE, ast.Gt: ast.LtE, ast.LtE: ast.Gt, ast.GtE: ast.Lt, ast.Eq: ast.NotEq, ast.NotEq: ast.Eq, ast.Is: ast.IsNot, ast.IsNot: ast.Is, ast.In: ast.NotIn, ast.NotIn: ast.In}
_SYM = {ast.Lt: "<", ast.Gt: ">", ast.LtE: "<=", ast.GtE: ">=", ast.Eq: "==", ast.NotEq: "!=", ast.Is: "is", ast.IsNot: "is not", ast.In: "in", ast.NotIn: "not in"}


def comparison(expr: ast.AST, negate: bool = False):
    """(left_ast, op_symbol, right_ast) of a single two-operand comparison, honouring `not` wrappers; None otherwise."""
    neg = negate
    e = expr
    while isinstance(e, ast.UnaryOp) and isinstance(e.op, ast.Not):
        neg = not neg
        e = e.operand
    if isinstance(e, ast.Compare) and len(e.ops) == 1:
        op = type(e.ops[0])
        if neg:
            op = _NEG.get(op)
            if op is None:
                return None
        return e.left, _SYM[op], e.comparators[0]
    return None


def oriented(expr: ast.AST, left_pred: Callable[[ast.AST], bool], negate: bool = False):
    """Comparison oriented so that the operand satisfying left_pred is on the left: (left, op, right) or None."""
    c = comparison(expr, negate)
    if c is None:
        return None
    l, op, r = c
    if left_pred(l):
        return l, op, r
    if left_pred(r):
        flip = {"<": ">", ">": "<", "<=": ">=", ">=": "<=", "==": "==", "!=": "!="}
        if op in flip:
            return r, flip[op], l
    return None


# ---------------------------------------------------------------------------------------------------------
# rational functions

Mono = tuple  # sorted tuple of (atom, power)
Poly = dict  # Mono -> Fraction


def _p_const(c) -> Poly:
    c = Fraction(c)
    return {(): c} if c != 0 else {}


def _p_atom(a: str) -> Poly:
    return {((a, 1),): Fraction(1)}


def _p_add(a: Poly, b: Poly, sign: int = 1) -> Poly:
    out = dict(a)
    for m, c in b.items():
        out[m] = out.get(m, Fraction(0)) + sign * c
        if out[m] == 0:
            del out[m]
    return out


def _m_mul(m1: Mono, m2: Mono) -> Mono:
    d = dict(m1)
    for a, p in m2:
        d[a] = d.get(a, 0) + p
    return tuple(sorted((a, p) for a, p in d.items() if p != 0))


def _p_mul(a: Poly, b: Poly) -> Poly:
    out: Poly = {}
    for m1, c1 in a.items():
        for m2, c2 in b.items():
            m = _m_mul(m1, m2)
            out[m] = out.get(m, Fraction(0)) + c1 * c2
            if out[m] == 0:
                del out[m]
    return out


class NotRational(Exception):
    pass


class Rat:
    """numerator / denominator, both polynomials over opaque atoms."""

    def __init__(self, num: Poly, den: Optional[Poly] = None):
        self.num = num
        self.den = den if den is not None else _p_const(1)

    def __eq__(self, other):
        if not isinstance(other, Rat):
            return NotImplemented
        return _p_mul(self.num, other.den) == _p_mul(other.num, self.den)

    def __hash__(self):  # pragma: no cover
        return 0

    def __repr__(self):
        def ps(p):
            if not p:
                return "0"
            terms = []
            for m, c in sorted(p.items(), key=lambda kv: str(kv[0])):
                ms = "*".join(a if k == 1 else f"{a}^{k}" for a, k in m)
                terms.append((f"{c}*" if c != 1 or not ms else "") + ms if ms else f"{c}")
            return " + ".join(terms)

        return f"({ps(self.num)}) / ({ps(self.den)})"

    def atoms(self) -> set[str]:
        return {a for p in (self.num, self.den) for m in p for a, _ in m}


def ratfun(expr: ast.AST, atom: Optional[Callable[[ast.AST], Optional[str]]] = None, subst: Optional[Callable[[ast.AST], Optional[ast.AST]]] = None, depth: int = 0) -> Rat:
    """Normalise an arithmetic expression. atom(node) may name an opaque atom (string) for any sub-expression;
    subst(node) may return a replacement expression (symbolic inlining of locals). Default atoms: canonical text."""
    if depth > 40:
        raise NotRational("substitution too deep")
    if subst is not None:
        r = subst(expr)
        if r is not None and r is not expr:
            return ratfun(r, atom, subst, depth + 1)
    if atom is not None:
        a = atom(expr)
        if a is not None:
            return Rat(_p_atom(a))
    if isinstance(expr, ast.Constant) and isinstance(expr.value, (int, float)) and not isinstance(expr.value, bool):
        return Rat(_p_const(Fraction(str(expr.value))))
    if isinstance(expr, ast.UnaryOp) and isinstance(expr.op, ast.USub):
        r = ratfun(expr.operand, atom, subst, depth)
        return Rat(_p_mul(_p_const(-1), r.num), r.den)
    if isinstance(expr, ast.UnaryOp) and isinstance(expr.op, ast.UAdd):
        return ratfun(expr.operand, atom, subst, depth)
    if isinstance(expr, ast.BinOp):
        if isinstance(expr.op, (ast.Add, ast.Sub, ast.Mult, ast.Div)):
            a = ratfun(expr.left, atom, subst, depth)
            b = ratfun(expr.right, atom, subst, depth)
            if isinstance(expr.op, ast.Add):
                return Rat(_p_add(_p_mul(a.num, b.den), _p_mul(b.num, a.den)), _p_mul(a.den, b.den))
            if isinstance(expr.op, ast.Sub):
                return Rat(_p_add(_p_mul(a.num, b.den), _p_mul(b.num, a.den), -1), _p_mul(a.den, b.den))
            if isinstance(expr.op, ast.Mult):
                return Rat(_p_mul(a.num, b.num), _p_mul(a.den, b.den))
            if not b.num:
                raise NotRational("division by constant zero")
            return Rat(_p_mul(a.num, b.den), _p_mul(a.den, b.num))
        if isinstance(expr.op, ast.Pow) and isinstance(expr.right, ast.Constant) and isinstance(expr.right.value, int) and 0 <= expr.right.value <= 6:
            a = ratfun(expr.left, atom, subst, depth)
            n, d = _p_const(1), _p_const(1)
            for _ in range(expr.right.value):
                n, d = _p_mul(n, a.num), _p_mul(d, a.den)
            return Rat(n, d)
    # opaque atom: canonical text
    return Rat(_p_atom(u(expr)))


def rat_equal(a: ast.AST, b: ast.AST, atom=None, subst=None) -> bool:
    try:
        return ratfun(a, atom, subst) == ratfun(b, atom, subst)
    except NotRational:
        return False


def parse_expr(text: str) -> ast.AST:
    return ast.parse(text, mode="eval").body
