"""Exception hierarchy of the *library* classes named in handlers, obtained by PARSING the installed sources (never importing them).

Needed because the hierarchy is not what one would guess: in elastic-transport 8.x ConnectionTimeout is NOT a subclass of ConnectionError,
and elasticsearch.ApiError does not derive from TransportError.
"""
from __future__ import annotations

import ast
import importlib.util
import os
from typing import Optional

from .source import AnchorMissing, last_attr

BUILTINS = {
    "BaseException": [],
    "Exception": ["BaseException"],
    "KeyboardInterrupt": ["BaseException"],
    "SystemExit": ["BaseException"],
    "GeneratorExit": ["BaseException"],
    "OSError": ["Exception"],
    "IOError": ["OSError"],
    "TimeoutError": ["OSError"],
    "ConnectionError": ["OSError"],  # the *builtin* one; library ConnectionError is qualified
    "KeyError": ["LookupError"],
    "LookupError": ["Exception"],
    "ValueError": ["Exception"],
    "TypeError": ["Exception"],
    "RuntimeError": ["Exception"],
    "AssertionError": ["Exception"],
    "StopIteration": ["Exception"],
    "Warning": ["Exception"],
    "socket.timeout": ["OSError"],  # alias of TimeoutError since 3.10
    "asyncio.CancelledError": ["BaseException"],
}

SOURCES = {
    "elastic_transport": ["_exceptions.py"],
    "elasticsearch": ["exceptions.py", "helpers/errors.py"],
    "urllib3": ["exceptions.py"],
}


class Hierarchy:
    def __init__(self):
        self.bases: dict[str, list[str]] = {k: list(v) for k, v in BUILTINS.items()}
        self.files: dict[str, str] = {}
        self._load()

    def _pkg_dir(self, pkg: str) -> Optional[str]:
        try:
            spec = importlib.util.find_spec(pkg)
        except (ImportError, ValueError):
            return None
        if spec is None or not spec.submodule_search_locations:
            return None
        return list(spec.submodule_search_locations)[0]

    def _load(self):
        for pkg, files in SOURCES.items():
            d = self._pkg_dir(pkg)
            if d is None:
                continue
            for f in files:
                p = os.path.join(d, f)
                if not os.path.exists(p):
                    continue
                with open(p, encoding="utf-8") as fh:
                    text = fh.read()
                self.files[p] = text
                tree = ast.parse(text)
                alias: dict[str, str] = {}
                for n in tree.body:
                    if isinstance(n, ast.ImportFrom) and n.module:
                        root = n.module.split(".")[0]
                        for a in n.names:
                            alias[a.asname or a.name] = f"{root}.{a.name}"
                for n in tree.body:
                    if isinstance(n, ast.ClassDef):
                        bs = []
                        for b in n.bases:
                            nm = last_attr(b)
                            if nm is None:
                                continue
                            if isinstance(b, ast.Name) and b.id in alias:
                                bs.append(alias[b.id])
                            elif isinstance(b, ast.Name) and f"{pkg}.{b.id}" in self.bases:
                                bs.append(f"{pkg}.{b.id}")
                            elif isinstance(b, ast.Name) and any(isinstance(c, ast.ClassDef) and c.name == b.id for c in tree.body):
                                bs.append(f"{pkg}.{b.id}")
                            else:
                                bs.append(nm)
                        self.bases[f"{pkg}.{n.name}"] = bs
                    elif isinstance(n, ast.Assign) and len(n.targets) == 1 and isinstance(n.targets[0], ast.Name) and isinstance(n.value, ast.Name):
                        # alias: RequestError = BadRequestError
                        self.bases.setdefault(f"{pkg}.{n.targets[0].id}", [f"{pkg}.{n.value.id}"])
                # re-exports: from elastic_transport import ConnectionError as ConnectionError
                for k, v in alias.items():
                    if v.split(".")[0] in SOURCES and f"{pkg}.{k}" not in self.bases:
                        self.bases[f"{pkg}.{k}"] = [v]  # treated as a (trivial) subclass == same class for our purposes
        if "elastic_transport.TransportError" not in self.bases:
            raise AnchorMissing("library sources for elastic_transport not found; cannot resolve the exception hierarchy")

    def canon(self, dotted_name: str) -> str:
        """'elasticsearch.exceptions.ConnectionError' -> 'elasticsearch.ConnectionError'; 'Exception' stays."""
        if dotted_name in self.bases:
            return dotted_name
        parts = dotted_name.split(".")
        if len(parts) >= 2:
            c = f"{parts[0]}.{parts[-1]}"
            if c in self.bases:
                return c
        if parts[-1] in self.bases and len(parts) == 1:
            return parts[-1]
        return dotted_name

    def ancestors(self, name: str) -> list[str]:
        name = self.canon(name)
        out, work = [], [name]
        while work:
            x = work.pop(0)
            if x in out:
                continue
            out.append(x)
            work.extend(self.bases.get(x, []))
        return out

    def is_subclass(self, a: str, b: str) -> bool:
        """True iff class a is (or aliases / derives from) class b."""
        rb = self.resolve_alias(b)
        return rb in {self.resolve_alias(x) for x in self.ancestors(a)}

    def _same(self, a: str, b: str) -> bool:
        ra, rb = self.resolve_alias(a), self.resolve_alias(b)
        return ra == rb

    def resolve_alias(self, name: str) -> str:
        name = self.canon(name)
        seen = set()
        while name in self.bases and len(self.bases[name]) == 1 and name.split(".")[-1] == self.bases[name][0].split(".")[-1] and name not in seen \
                and name.split(".")[0] != self.bases[name][0].split(".")[0]:
            seen.add(name)
            name = self.bases[name][0]
        return name

    def known(self, name: str) -> bool:
        return self.canon(name) in self.bases

    def catches(self, handler_types: list[str], raised: str) -> bool:
        """Does `except (handler_types)` catch an exception of class `raised`?"""
        anc = {self.resolve_alias(x) for x in self.ancestors(raised)}
        return any(self.resolve_alias(h) in anc for h in handler_types)


def handler_type_names(h: ast.ExceptHandler, module=None) -> list[str]:
    """Dotted names of the classes an except clause names (bare except -> ['BaseException'])."""
    from .source import dotted

    if h.type is None:
        return ["BaseException"]
    elts = h.type.elts if isinstance(h.type, ast.Tuple) else [h.type]
    out = []
    for e in elts:
        d = dotted(e) or "?"
        if module is not None:
            head = d.split(".")[0]
            if head in module.imports and module.imports[head] != head:
                d = module.imports[head] + d[len(head):]
        out.append(d)
    return out
