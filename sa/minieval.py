"""Evaluate a pure expression extracted from the source over one representative element of a finite abstract domain.

Only literals, names bound by the rule, subscripts, comparisons (incl. in / not in), boolean structure, len(), isinstance(x, dict/list/str/bytes)
and .get(key[, default]) are interpreted; anything else raises CannotEval (the rule then reports 'inconclusive', never a verdict).
No function of the repository is ever called.
"""
from __future__ import annotations

import ast
import operator

from .source import dotted, u


class CannotEval(Exception):
    pass


class Record:
    """A value with named fields (stands for an object whose attributes the rule fixes), e.g. Record(major=8, minor=5)."""

    def __init__(self, **fields):
        self.fields = fields


_CMP = {ast.Eq: operator.eq, ast.NotEq: operator.ne, ast.Lt: operator.lt, ast.LtE: operator.le, ast.Gt: operator.gt, ast.GtE: operator.ge,
        ast.Is: operator.is_, ast.IsNot: operator.is_not, ast.In: lambda a, b: a in b, ast.NotIn: lambda a, b: a not in b}
_ARITH = {ast.Add: operator.add, ast.Sub: operator.sub, ast.Mult: operator.mul, ast.Div: operator.truediv, ast.Pow: operator.pow, ast.FloorDiv: operator.floordiv, ast.Mod: operator.mod}
_TYPES = {"dict": dict, "list": list, "str": str, "bytes": bytes, "int": int, "tuple": tuple}


def ev(e: ast.AST, env: dict):
    if isinstance(e, ast.Constant):
        return e.value
    if isinstance(e, ast.Name):
        if e.id in env:
            return env[e.id]
        raise CannotEval(f"unbound name {e.id}")
    if isinstance(e, ast.Attribute):
        v = ev(e.value, env)
        if isinstance(v, Record) and e.attr in v.fields:
            return v.fields[e.attr]
        raise CannotEval(f"attribute {u(e)[:60]}")
    if isinstance(e, ast.Subscript):
        v = ev(e.value, env)
        k = ev(e.slice, env)
        try:
            return v[k]
        except (KeyError, IndexError, TypeError) as x:
            raise CannotEval(f"{u(e)}: {type(x).__name__}")
    if isinstance(e, ast.Compare):
        left = ev(e.left, env)
        for op, c in zip(e.ops, e.comparators):
            right = ev(c, env)
            try:
                if not _CMP[type(op)](left, right):
                    return False
            except TypeError as x:
                raise CannotEval(f"{u(e)}: {x}")
            left = right
        return True
    if isinstance(e, ast.BoolOp):
        if isinstance(e.op, ast.And):
            r = True
            for v in e.values:
                r = ev(v, env)
                if not r:
                    return r
            return r
        r = False
        for v in e.values:
            r = ev(v, env)
            if r:
                return r
        return r
    if isinstance(e, ast.UnaryOp) and isinstance(e.op, ast.Not):
        return not ev(e.operand, env)
    if isinstance(e, ast.UnaryOp) and isinstance(e.op, ast.USub):
        return -ev(e.operand, env)
    if isinstance(e, ast.IfExp):
        return ev(e.body, env) if ev(e.test, env) else ev(e.orelse, env)
    if isinstance(e, (ast.List, ast.Tuple, ast.Set)):
        vals = [ev(x, env) for x in e.elts]
        return vals if isinstance(e, ast.List) else (tuple(vals) if isinstance(e, ast.Tuple) else set(vals))
    if isinstance(e, ast.Dict):
        return {ev(k, env): ev(v, env) for k, v in zip(e.keys, e.values)}
    if isinstance(e, ast.Call):
        d = dotted(e.func)
        if d == "len" and len(e.args) == 1:
            return len(ev(e.args[0], env))
        if d in ("str", "float", "int", "abs", "round") and 1 <= len(e.args) <= 2 and not e.keywords:
            vals = [ev(a, env) for a in e.args]
            if all(isinstance(v, (int, float, str)) and not isinstance(v, bool) for v in vals):
                try:
                    return {"str": str, "float": float, "int": int, "abs": abs, "round": round}[d](*vals)
                except (ValueError, TypeError) as x:
                    raise CannotEval(f"{u(e)[:60]}: {type(x).__name__}")
        if isinstance(e.func, ast.Attribute) and e.func.attr in ("replace", "strip", "lstrip", "rstrip", "lower", "upper", "casefold", "title", "capitalize", "split", "rsplit", "partition",
                                                                "startswith", "endswith") and not e.keywords:
            recv = ev(e.func.value, env)
            vals = [ev(a, env) for a in e.args]
            if isinstance(recv, str) and all(isinstance(v, (str, int)) for v in vals):
                r = getattr(recv, e.func.attr)(*vals)
                return list(r) if isinstance(r, tuple) else r
        if d in ("set", "list", "tuple", "frozenset", "sorted", "bool", "any", "all", "sum", "min", "max") and len(e.args) == 1 and not e.keywords:
            v = ev(e.args[0], env)
            if d == "bool" or isinstance(v, (list, tuple, set, frozenset, dict, str)):
                try:
                    r = {"set": set, "list": list, "tuple": tuple, "frozenset": frozenset, "sorted": sorted, "bool": bool, "any": any, "all": all, "sum": sum, "min": min, "max": max}[d](v)
                except (ValueError, TypeError) as x:
                    raise CannotEval(f"{u(e)[:60]}: {type(x).__name__}")
                return r
        if d == "isinstance" and len(e.args) == 2 and dotted(e.args[1]) in _TYPES:
            return isinstance(ev(e.args[0], env), _TYPES[dotted(e.args[1])])
        if isinstance(e.func, ast.Attribute) and e.func.attr == "get" and 1 <= len(e.args) <= 2:
            recv = ev(e.func.value, env)
            if isinstance(recv, dict):
                return recv.get(ev(e.args[0], env), ev(e.args[1], env) if len(e.args) == 2 else None)
        if d in ("next",) and len(e.args) == 1 and isinstance(e.args[0], ast.Call) and dotted(e.args[0].func) == "iter":
            inner = e.args[0].args[0]
            if isinstance(inner, ast.Call) and isinstance(inner.func, ast.Attribute) and inner.func.attr in ("values", "items", "keys"):
                recv = ev(inner.func.value, env)
                return next(iter(getattr(recv, inner.func.attr)()))
        raise CannotEval(f"call {u(e)[:60]}")
    if isinstance(e, ast.BinOp) and type(e.op) in _ARITH:
        a, b = ev(e.left, env), ev(e.right, env)
        if isinstance(e.op, ast.Add) and ((isinstance(a, list) and isinstance(b, list)) or (isinstance(a, str) and isinstance(b, str)) or (isinstance(a, tuple) and isinstance(b, tuple))):
            return a + b
        if not (isinstance(a, (int, float)) and isinstance(b, (int, float))):
            raise CannotEval(f"{u(e)[:60]}: non-numeric operands")
        try:
            return _ARITH[type(e.op)](a, b)
        except (ZeroDivisionError, OverflowError) as x:
            raise CannotEval(f"{u(e)[:60]}: {type(x).__name__}")
    if isinstance(e, (ast.ListComp, ast.GeneratorExp, ast.SetComp)) and all(not g.is_async for g in e.generators):
        out = []

        def rec(i, env_):
            if i == len(e.generators):
                out.append(ev(e.elt, env_))
                return
            g = e.generators[i]
            it = ev(g.iter, env_)
            if not isinstance(it, (list, tuple, set, str, dict, range)):
                raise CannotEval(f"{u(e)[:60]}: iterable")
            for v in it:
                env2 = dict(env_)
                if isinstance(g.target, ast.Name):
                    env2[g.target.id] = v
                elif isinstance(g.target, ast.Tuple) and all(isinstance(t, ast.Name) for t in g.target.elts) and isinstance(v, (list, tuple)) and len(v) == len(g.target.elts):
                    for t, x in zip(g.target.elts, v):
                        env2[t.id] = x
                else:
                    raise CannotEval(f"{u(e)[:60]}: target")
                if all(ev(c, env2) for c in g.ifs):
                    rec(i + 1, env2)

        rec(0, dict(env))
        return set(out) if isinstance(e, ast.SetComp) else out
    if isinstance(e, ast.JoinedStr):
        out = []
        for v in e.values:
            if isinstance(v, ast.Constant):
                out.append(str(v.value))
            elif isinstance(v, ast.FormattedValue):
                val = ev(v.value, env)
                spec = ev(v.format_spec, env) if v.format_spec is not None else ""
                if v.conversion not in (-1, 115, 114) or not isinstance(val, (int, float, str)):
                    raise CannotEval(f"{u(e)[:60]}: conversion / value type")
                val = repr(val) if v.conversion == 114 else (str(val) if v.conversion == 115 else val)
                try:
                    out.append(format(val, spec))
                except (ValueError, TypeError) as x:
                    raise CannotEval(f"{u(e)[:60]}: {type(x).__name__}")
        return "".join(out)
    if isinstance(e, ast.NamedExpr):
        v = ev(e.value, env)
        env[e.target.id] = v
        return v
    raise CannotEval(f"{type(e).__name__}: {u(e)[:60]}")
