"""Tiny AST pattern matcher used by the rules instead of text equality, so that local names, comparison orientation and branch polarity do not matter.

Pattern syntax is Python expression syntax with metavariables:
    V_x   binds one local Name (consistently: the same V_x must be the same name everywhere)
    E_x   binds any expression (compared by unparsed text when it re-occurs)
A single two-operand comparison also matches its flipped orientation (a < b  ==  b > a).
`binds` may pre-bind metavariables to names / expression text.
"""
from __future__ import annotations

import ast
from typing import Optional

from . import cfg as _cfg

_FLIP = {ast.Lt: ast.Gt, ast.Gt: ast.Lt, ast.LtE: ast.GtE, ast.GtE: ast.LtE, ast.Eq: ast.Eq, ast.NotEq: ast.NotEq}
_cache: dict = {}


def _parse(p: str) -> ast.AST:
    if p not in _cache:
        _cache[p] = ast.parse(p, mode="eval").body
    return _cache[p]


def _m(n, p, b: dict) -> bool:
    if isinstance(p, ast.Name) and p.id.startswith("V_"):
        k = p.id[2:]
        if k in b:
            return isinstance(n, ast.Name) and n.id == b[k]
        if isinstance(n, ast.Name):
            b[k] = n.id
            return True
        return False
    if isinstance(p, ast.Name) and p.id.startswith("E_"):
        k = p.id[2:]
        t = ast.unparse(n)
        if k in b:
            return t == b[k]
        b[k] = t
        return True
    if type(n) is not type(p):
        return False
    if isinstance(p, ast.Compare) and len(p.ops) == 1 and len(n.ops) == 1 and type(p.ops[0]) in _FLIP:
        saved = dict(b)
        if type(n.ops[0]) is type(p.ops[0]) and _m(n.left, p.left, b) and _m(n.comparators[0], p.comparators[0], b):
            return True
        b.clear()
        b.update(saved)
        if type(n.ops[0]) is _FLIP[type(p.ops[0])] and _m(n.comparators[0], p.left, b) and _m(n.left, p.comparators[0], b):
            return True
        b.clear()
        b.update(saved)
        return False
    if isinstance(p, ast.BoolOp) and type(p.op) is type(n.op) and len(p.values) == len(n.values):
        # conjunct / disjunct order is irrelevant: try to match each pattern operand with a distinct node operand
        def rec(i, used, bb):
            if i == len(p.values):
                b.clear()
                b.update(bb)
                return True
            for j, v in enumerate(n.values):
                if j in used:
                    continue
                b2 = dict(bb)
                if _m(v, p.values[i], b2) and rec(i + 1, used | {j}, b2):
                    return True
            return False

        return rec(0, frozenset(), dict(b))
    for f, pv in ast.iter_fields(p):
        if f in ("ctx", "lineno", "col_offset", "end_lineno", "end_col_offset", "type_comment", "kind"):
            continue
        nv = getattr(n, f, None)
        if isinstance(pv, list):
            if not isinstance(nv, list) or len(nv) != len(pv):
                return False
            for a, c in zip(nv, pv):
                if isinstance(c, ast.AST):
                    if not _m(a, c, b):
                        return False
                elif a != c:
                    return False
        elif isinstance(pv, ast.AST):
            if not isinstance(nv, ast.AST) or not _m(nv, pv, b):
                return False
        elif nv != pv:
            return False
    return True


def match(node: Optional[ast.AST], pattern: str, binds: Optional[dict] = None) -> Optional[dict]:
    """bindings dict if node matches the pattern (any orientation), else None."""
    if node is None:
        return None
    b = dict(binds or {})
    return b if _m(node, _parse(pattern), b) else None


def is_(node, *patterns: str, binds: Optional[dict] = None) -> bool:
    return any(match(node, p, binds) is not None for p in patterns)


def fact_nodes(node: ast.AST, stop: Optional[ast.AST] = None, path_sensitive: bool = True) -> list:
    """atomic guard facts of node as AST nodes (negations pushed in, conjunctions split). By default the negated conditions of preceding guard clauses (`if c: return`) count
    as facts too; pass path_sensitive=False when the question is "which explicit branches was this written under" (e.g. exactly-these-conditions rules)."""
    out = []
    for t, pol in _cfg.guards(node, stop, path_sensitive=path_sensitive):
        e = t if pol else _cfg.negate(t)
        out += _cfg.conjuncts(e)
    return out


def guarded(node: ast.AST, *patterns: str, stop: Optional[ast.AST] = None, binds: Optional[dict] = None) -> Optional[dict]:
    """bindings if some guard fact of node matches one of the patterns, else None."""
    for f in fact_nodes(node, stop):
        for p in patterns:
            b = match(f, p, binds)
            if b is not None:
                return b
    return None


def find(root: ast.AST, pattern: str, binds: Optional[dict] = None) -> list:
    """[(node, bindings)] for every sub-node of root matching the pattern."""
    out = []
    for n in ast.walk(root):
        b = match(n, pattern, binds)
        if b is not None:
            out.append((n, b))
    return out
