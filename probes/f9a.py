import json
from io import BytesIO
from esrally.driver import runner
for sortv in (["a]b", 1], [[1, 2], "x"], [1609780186, "2"], ["q\"]", 3]):
    doc = {"took": 1, "timed_out": False, "hits": {"total": {"value": 2, "relation": "eq"}, "hits": [
        {"_id": "1", "sort": [0, "z"]}, {"_id": "2", "sort": sortv}]}}
    for dump in (json.dumps(doc), json.dumps(doc, indent=2), json.dumps(doc, separators=(",", ":"))):
        parsed, last = runner.SearchAfterExtractor()(BytesIO(dump.encode()), False, None)
        assert last == sortv, (sortv, last)
print("ok")
