# F14 (C14): an empty document file left on disk (size not declared by the track) passes corpus preparation:
# the line-count check is skipped because `lines_read` (0) is tested by truthiness.
import os, tempfile
from esrally import exceptions
from esrally.track import loader, track
d = tempfile.mkdtemp()
open(os.path.join(d, "docs.json"), "w").close()                      # 0 bytes, 0 lines (e.g. an interrupted earlier run)
ds = track.Documents(source_format="bulk", document_file="docs.json", number_of_documents=100)   # sizes undeclared
p = loader.DocumentSetPreparator("t", downloader=None, decompressor=None)
try:
    p.prepare_document_set(ds, d)
except exceptions.DataError as e:
    print("explicit error:", e.message[:80])
else:
    raise SystemExit("FAIL: preparation returned normally although the document file has 0 of 100 lines")
