#!/usr/bin/env python
"""
C12 / finding 2: a start failure of the 2nd (3rd, ...) node on a host orphans the nodes that were already started on that host.

``Mechanic.start_engine`` only remembers the started nodes when ``launcher.start()`` has returned *all* of them
(``self.nodes = self.launcher.start(self.node_configs)``), and ``ProcessLauncher.start`` / ``DockerLauncher.start`` raise on
the first node that does not come up. When race control tears the engine down after the reported failure (ActorExitRequest
-> NodeMechanicActor -> Mechanic.stop_engine), ``self.nodes`` is still empty: the nodes that did start are never stopped,
although their installation directory is wiped underneath them.

Everything is real (thespian simpleSystemBase, MechanicActor, Dispatcher, NodeMechanicActor, mechanic.create, Mechanic, the
BareProvisioner with a --team-path team, ProcessLauncher incl. telemetry devices, in-memory metrics store) except:

  * the "Elasticsearch distribution" that the supplier hands out is a tiny tar.gz whose bin/elasticsearch is a script that behaves
    like the real one as far as the launcher can tell: it binds http.port from config/elasticsearch.yml, daemonizes, writes the
    pid file and exits with 0 - or exits with 1 when the port is already taken (no network, no JVM, no Elasticsearch here),
  * os.geteuid() says 1000 if the demo happens to run as root (the launcher refuses to start Elasticsearch as root).

Run as:  cd <checkout> && PYTHONPATH=<checkout> /venv/bin/python demo.py
"""
import io
import os
import shutil
import socket
import sys
import tarfile
import tempfile
import time

FAKE_ES = r'''#!%(python)s
# stand-in for bin/elasticsearch -d -p <pidfile>
import os, re, signal, socket, sys, time
home = os.path.dirname(os.path.dirname(os.path.abspath(__file__)))
pidfile = sys.argv[sys.argv.index("-p") + 1]
with open(os.path.join(home, "config", "elasticsearch.yml")) as f:
    port = int(re.search(r"^http\.port:\s*(\d+)", f.read(), re.M).group(1))
s = socket.socket()
try:
    s.bind(("127.0.0.1", port))
    s.listen(5)
except OSError:
    sys.stderr.write("BindHttpException: Failed to bind to 127.0.0.1:%%d - Address already in use\n" %% port)
    sys.exit(1)
pid = os.fork()
if pid:
    with open(pidfile, "w") as f:
        f.write(str(pid))
    with open(%(registry)r, "a") as f:
        f.write("%%d %%d %%s\n" %% (pid, port, home))
    sys.exit(0)
os.setsid()
# never outlive the demo by much
deadline = time.time() + 180
while time.time() < deadline:
    time.sleep(0.5)
'''


def free_port():
    s = socket.socket()
    s.bind(("127.0.0.1", 0))
    p = s.getsockname()[1]
    s.close()
    return p


def make_team(workdir):
    team = os.path.join(workdir, "team")
    os.makedirs(os.path.join(team, "cars", "v1", "vanilla", "templates", "config"))
    with open(os.path.join(team, "cars", "v1", "defaults.ini"), "w") as f:
        f.write("[meta]\ndescription=demo\ntype=car\n\n[config]\nbase=vanilla\n\n[variables]\nruntime.jdk=21\nruntime.jdk.bundled=true\n")
    with open(os.path.join(team, "cars", "v1", "vanilla", "templates", "config", "elasticsearch.yml"), "w") as f:
        f.write(
            "cluster.name: {{cluster_name}}\nnode.name: {{node_name}}\nnetwork.host: {{network_host}}\n"
            "http.port: {{http_port}}\ntransport.port: {{transport_port}}\n"
        )
    return team


def make_distribution(workdir, registry):
    def add(tar, name, content, mode):
        data = content.encode()
        info = tarfile.TarInfo(name)
        info.size = len(data)
        info.mode = mode
        tar.addfile(info, io.BytesIO(data))

    path = os.path.join(workdir, "elasticsearch-8.0.0-linux-x86_64.tar.gz")
    with tarfile.open(path, "w:gz") as tar:
        add(tar, "elasticsearch-8.0.0/bin/elasticsearch", FAKE_ES % {"python": sys.executable, "registry": registry}, 0o755)
        add(tar, "elasticsearch-8.0.0/config/elasticsearch.yml", "# pre-bundled\n", 0o644)
    return path


def make_cfg(team, race_id, target_hosts):
    from esrally import config
    from esrally.utils import opts

    cfg = config.Config()
    if not cfg.config_present():
        cfg.install_default_config()
    cfg.load_config()
    o = config.Scope.applicationOverride
    cfg.add(o, "system", "race.id", race_id)
    cfg.add(o, "system", "install.id", race_id)
    cfg.add(o, "system", "offline.mode", True)
    cfg.add(o, "mechanic", "team.path", team)
    cfg.add(o, "mechanic", "repository.revision", None)
    cfg.add(o, "mechanic", "car.names", ["defaults"])
    cfg.add(o, "mechanic", "car.params", {})
    cfg.add(o, "mechanic", "car.plugins", [])
    cfg.add(o, "mechanic", "plugin.params", {})
    cfg.add(o, "mechanic", "distribution.version", "8.0.0")
    cfg.add(o, "mechanic", "runtime.jdk", "bundled")
    cfg.add(o, "mechanic", "preserve.install", False)
    cfg.add(o, "mechanic", "cluster.name", "rally-benchmark")
    cfg.add(o, "client", "hosts", opts.TargetHosts(target_hosts))
    cfg.add(o, "telemetry", "devices", [])
    cfg.add(o, "telemetry", "params", {})
    cfg.add(o, "race", "user.tags", {})
    cfg.add(o, "track", "params", {})
    return cfg


def port_in_use(port):
    s = socket.socket()
    s.settimeout(1)
    try:
        s.connect(("127.0.0.1", port))
        return True
    except OSError:
        return False
    finally:
        s.close()


def read_registry(registry):
    if not os.path.exists(registry):
        return []
    with open(registry) as f:
        return [(int(pid), int(port), home) for pid, port, home in (line.split(" ", 2) for line in f.read().splitlines())]


def alive(pid):
    import psutil

    try:
        return psutil.Process(pid).status() != psutil.STATUS_ZOMBIE
    except psutil.NoSuchProcess:
        return False


def scenario(asys, name, team, registry, target_hosts):
    """Plays race control: StartEngine, wait for the answer, then the tear-down of racecontrol.race() (ActorExitRequest)."""
    import thespian.actors

    from esrally import actor
    from esrally.mechanic import mechanic

    print("--- %s: --target-hosts=%s" % (name, target_hosts))
    if os.path.exists(registry):
        os.remove(registry)
    cfg = make_cfg(team, "c12-f2-%s" % name, target_hosts)
    mech = asys.createActor(mechanic.MechanicActor, targetActorRequirements={"coordinator": True})
    open_ctx = {"race-id": "c12-f2-%s" % name, "race-timestamp": "20260101T000000Z", "track": "t", "challenge": "c", "car": ["defaults"]}
    answer = asys.ask(mech, mechanic.StartEngine(cfg, open_ctx, sources=False, distribution=True, external=False, docker=False), 120)
    if isinstance(answer, actor.BenchmarkFailure):
        print("    race control is told: BenchmarkFailure [%s]" % str(answer.message).strip().splitlines()[-1])
    else:
        print("    race control is told: %s" % type(answer).__name__)
    started = read_registry(registry)
    for pid, port, home in started:
        print("    an Elasticsearch node was started: pid %d, http.port %d, %s" % (pid, port, os.path.relpath(home, os.environ["RALLY_HOME"])))
    # what racecontrol.race() does in its finally block, on success as well as after a BenchmarkFailure; thespian hands the request
    # down the actor hierarchy and NodeMechanicActor reacts to it with Mechanic.stop_engine()
    asys.tell(mech, thespian.actors.ActorExitRequest())
    time.sleep(1)
    orphans = []
    for pid, port, home in started:
        is_alive = alive(pid)
        print(
            "    after the tear-down: pid %d is %s, port %d is %s, installation directory %s"
            % (pid, "STILL RUNNING" if is_alive else "gone", port, "STILL BOUND" if port_in_use(port) else "free",
               "still there" if os.path.exists(home) else "wiped")
        )
        if is_alive:
            orphans.append(pid)
    return answer, started, orphans


def main():
    import thespian.actors

    from esrally import actor, log
    from esrally.mechanic import mechanic, supplier

    workdir = tempfile.mkdtemp(prefix="c12-f2-")
    os.environ["RALLY_HOME"] = workdir
    log.install_default_log_config()
    registry = os.path.join(workdir, "started-nodes")
    distribution = make_distribution(workdir, registry)
    team = make_team(workdir)
    cwd = os.getcwd()

    # fake 1: no network - the supplier hands out the prepared "distribution"
    supplier.create = lambda cfg, sources, distribution_, car, plugins=None: (lambda: {"elasticsearch": distribution})
    # fake 2: the launcher refuses to run as root
    if os.geteuid() == 0:
        os.geteuid = lambda: 1000

    # Rally's own log configuration: everything goes to $RALLY_HOME/.rally/logs/rally.log
    asys = thespian.actors.ActorSystem(
        "simpleSystemBase", logDefs=log.load_configuration(), capabilities={"coordinator": True, "ip": "127.0.0.1"}
    )
    killed = []
    rc = 0
    try:
        port = free_port()
        # control: one node on the host, comes up fine, tear-down stops it
        answer, started, orphans = scenario(asys, "control", team, registry, "127.0.0.1:%d" % port)
        killed += orphans
        if not isinstance(answer, mechanic.EngineStarted) or len(started) != 1 or orphans:
            print("SETUP PROBLEM: the control scenario did not start and stop exactly one node")
            return 3
        # finding: two nodes on the same host (the same host:port is listed twice, which is how nodes_by_host() assigns several
        # node ids to one host); the second node cannot come up (here: its http port is taken by the first one)
        answer, started, orphans = scenario(asys, "finding", team, registry, "127.0.0.1:%d,127.0.0.1:%d" % (port, port))
        killed += orphans
        print()
        print("EXPECTED: the start failure is reported as a BenchmarkFailure and every node that did start is stopped (once) when the "
              "engine is torn down")
        if not isinstance(answer, actor.BenchmarkFailure):
            print("OBSERVED: race control was told %s instead of a BenchmarkFailure" % type(answer).__name__)
            rc = 1
        elif orphans:
            print("OBSERVED: the failure is reported, but %d of %d started node(s) keep running after the tear-down (pid %s): "
                  "Mechanic.start_engine() never recorded them in self.nodes, so Mechanic.stop_engine() stopped nothing - and still "
                  "wiped their installation directories." % (len(orphans), len(started), ", ".join(map(str, orphans))))
            rc = 1
        else:
            print("OBSERVED: the failure is reported and no started node is left behind - the property holds")
    finally:
        os.chdir(cwd)
        import psutil

        for pid in killed:
            try:
                psutil.Process(pid).kill()
            except psutil.NoSuchProcess:
                pass
        asys.shutdown()
        shutil.rmtree(workdir, ignore_errors=True)
    return rc


if __name__ == "__main__":
    sys.exit(main())
