r"""
C19 / extra (minor, not counted among the four): SearchAfterExtractor's pattern  sort\":\s*(\[)  tolerates
white space after the colon but not before it.  Elasticsearch's pretty printer (`?pretty`, which a track may
pass through the documented `request-params` of paginated-search) writes `"sort" : [ 2 ]`, so for the very
same JSON value the fast path returns cursor None while a full parse returns [2].
Smallest repair: sort\"\s*:\s*(\[)

Run:  cd <checkout> && PYTHONPATH=<checkout> /venv/bin/python demo.py
"""
import io
import json
import sys

from esrally.driver import runner

response = {
    "took": 1,
    "timed_out": False,
    "hits": {"total": {"value": 4, "relation": "eq"}, "hits": [{"_id": "1", "sort": [1]}, {"_id": "2", "sort": [2]}]},
}
# Jackson's DefaultPrettyPrinter as used by Elasticsearch for ?pretty: `"key" : value`
pretty = json.dumps(response, indent=2, separators=(",", " : ")).encode("utf-8")
compact = json.dumps(response, separators=(",", ":")).encode("utf-8")
assert json.loads(pretty) == json.loads(compact)
extractor = runner.SearchAfterExtractor()
_, cursor_compact = extractor(io.BytesIO(compact), False, None)
_, cursor_pretty = extractor(io.BytesIO(pretty), False, None)
expected = json.loads(pretty)["hits"]["hits"][-1]["sort"]
print("compact:", cursor_compact, "pretty:", cursor_pretty, "full parse:", expected)
if cursor_pretty != expected:
    print(f"VIOLATION: EXPECTED cursor {expected} (sort of the last hit) for the pretty-printed response, OBSERVED {cursor_pretty}")
    sys.exit(1)
print("OK")
