"""
C05 / f2: the progress that Rally reports for a running task goes backwards.

Runs the real esrally.driver.driver.Driver (allocation, join points, update_samples, update_progress_message) and
produces the samples with the real schedule_for / IterationBased / AsyncExecutor. Fakes: the actor (a Mock, as in
tests/driver/driver_test.py), the Elasticsearch client and the runner. The driver methods are invoked in the order in
which DriverActor invokes them: receiveMsg_UpdateSamples -> Driver.update_samples(samples), the one-second
receiveMsg_WakeupMessage -> Driver.update_progress_message(), receiveMsg_JoinPointReached -> Driver.joinpoint_reached().

Scenario 1 (message order): one task, 2 clients (two workers, one client each), 10 iterations per client. The samples of
    worker 0 (client 0 is at 60 %) reach the driver before a wake-up, the samples of worker 1 (client 1 is at 20 %) after it.
Scenario 2 (no race at all): a parallel element with "clients": 1 and two tasks of 4 iterations each; the single client
    runs the tasks one after the other within the same step.
"""
import asyncio
import datetime
import logging
import re
import sys
import threading
from unittest import mock

from esrally import config, track
from esrally.client.context import RequestContextHolder
from esrally.driver import driver, runner

logging.disable(logging.CRITICAL)


class Holder:
    def __init__(self, all_hosts=None, all_client_options=None):
        self.all_hosts = all_hosts
        self.all_client_options = all_client_options
        # disables the cluster-level telemetry devices (they would talk to Elasticsearch)
        self.uses_static_responses = True


class StaticClientFactory:
    def __init__(self, *args, **kwargs):
        pass

    def create(self):
        return mock.MagicMock()


class CapturingReporter:
    def __init__(self):
        self.reported = []

    def print(self, message, progress):
        self.reported.append((message, int(re.search(r"(\d+)%", progress).group(1))))

    def finish(self):
        pass


class FakeEs(RequestContextHolder):
    pass


class NoopRunner:
    async def __call__(self, es, params):
        es.on_request_start()
        es.on_request_end()
        return {"weight": 1, "unit": "ops"}

    def __repr__(self):
        return "noop-runner"


def new_driver(schedule):
    cfg = config.Config()
    cfg.add(config.Scope.application, "system", "env.name", "unittest")
    cfg.add(config.Scope.application, "system", "time.start", datetime.datetime(2017, 8, 20, 1, 0, 0))
    cfg.add(config.Scope.application, "system", "race.id", "6ebc6e53-ee20-4b0c-99b4-09697987e9f4")
    cfg.add(config.Scope.application, "system", "available.cores", 8)
    cfg.add(config.Scope.application, "node", "root.dir", "/tmp")
    cfg.add(config.Scope.application, "track", "challenge.name", "default")
    cfg.add(config.Scope.application, "track", "params", {})
    cfg.add(config.Scope.application, "track", "test.mode.enabled", False)
    cfg.add(config.Scope.application, "telemetry", "devices", [])
    cfg.add(config.Scope.application, "telemetry", "params", {})
    cfg.add(config.Scope.application, "mechanic", "car.names", ["default"])
    cfg.add(config.Scope.application, "mechanic", "skip.rest.api.check", True)
    cfg.add(config.Scope.application, "client", "hosts", Holder(all_hosts={"default": ["localhost:9200"]}))
    cfg.add(config.Scope.application, "client", "options", Holder(all_client_options={"default": {}}))
    cfg.add(config.Scope.application, "driver", "load_driver_hosts", ["localhost"])
    cfg.add(config.Scope.application, "reporting", "datastore.type", "in-memory")
    t = track.Track(name="unittest", description="", challenges=[track.Challenge("default", default=True, schedule=schedule)])
    d = driver.Driver(mock.Mock(), cfg, es_client_factory_class=StaticClientFactory)
    d.progress_reporter = CapturingReporter()
    d.prepare_benchmark(t)
    d.start_benchmark()
    # all workers reach the initial join point -> step 0 starts
    for worker_id in range(len(d.workers)):
        clients = [c for c, w in d.clients_per_worker.items() if w == worker_id]
        d.joinpoint_reached(worker_id, 10.0, [driver.ClientAllocation(c, d.allocations[c][0]) for c in clients])
    assert d.current_step == 0
    return d, t


def samples_of(d, t, client_id, allocation_index):
    """Executes the task allocation of the given client with the real AsyncExecutor and returns its samples."""
    allocation = d.allocations[client_id][allocation_index]
    param_source = track.operation_parameters(t, allocation.task)
    sampler = driver.Sampler(start_timestamp=0, buffer_size=1000)
    schedule = driver.schedule_for(allocation, param_source)
    executor = driver.AsyncExecutor(
        client_id, allocation.task, schedule, {"default": FakeEs()}, sampler, threading.Event(), threading.Event(), "continue"
    )
    asyncio.run(executor())
    return sampler.samples


def check(name, reported):
    values = [p for _, p in reported]
    print(f"{name}: reported progress {values}")
    for previous, current in zip(values, values[1:]):
        if current < previous:
            return [f"{name}: expected the reported progress never to decrease, observed {previous}% followed by {current}% in {values}"]
    return []


def main():
    runner.register_runner("c05-f2-op", NoopRunner(), async_runner=True)
    failures = []

    # --- scenario 1 -------------------------------------------------------------------------------------------------
    search = track.Task("search", track.Operation("search", "c05-f2-op", params={}), warmup_iterations=0, iterations=10, clients=2)
    d, t = new_driver([search])
    assert len(d.workers) == 2 and d.clients_per_worker == {0: 0, 1: 1}
    client0, client1 = samples_of(d, t, 0, 1), samples_of(d, t, 1, 1)
    assert [s.percent_completed for s in client0] == [i / 10 for i in range(1, 11)]
    d.progress_reporter.reported.clear()
    d.update_samples(client0[:6])  # UpdateSamples from worker 0: client 0 has finished 6 of 10 iterations
    d.update_progress_message()  # WakeupMessage of the driver
    d.update_samples(client1[:2])  # UpdateSamples from worker 1: client 1 has finished 2 of 10 iterations
    d.update_progress_message()
    d.update_samples(client0[6:] + client1[2:])
    d.update_progress_message()
    failures += check("scenario 1 (task with 2 clients on 2 workers)", d.progress_reporter.reported)

    # --- scenario 2 -------------------------------------------------------------------------------------------------
    a = track.Task("a", track.Operation("a", "c05-f2-op", params={}), iterations=4, clients=1)
    b = track.Task("b", track.Operation("b", "c05-f2-op", params={}), iterations=4, clients=1)
    d, t = new_driver([track.Parallel([a, b], clients=1)])
    assert len(d.allocations) == 1 and [type(x).__name__ for x in d.allocations[0]] == ["JoinPoint", "TaskAllocation", "TaskAllocation", "JoinPoint"]
    d.progress_reporter.reported.clear()
    for allocation_index in (1, 2):  # the worker executes a, then b; samples are sent and progress is printed in between
        for sample in samples_of(d, t, 0, allocation_index):
            d.update_samples([sample])
            d.update_progress_message()
    failures += check("scenario 2 (parallel element, clients=1, tasks a and b)", d.progress_reporter.reported)

    if failures:
        print("\nFAIL:")
        for f in failures:
            print("  - " + f)
        return 1
    print("OK")
    return 0


if __name__ == "__main__":
    sys.exit(main())
