from esrally.driver import driver
from esrally.track import track
op = track.Operation("op", "bulk", params={})
t = track.Task("T", op)
a = driver.Allocator([track.Parallel([]), t])
steps = len(a.join_points) - 1
entries = a.tasks_per_joinpoint
print("steps", steps, "entries", entries)
assert len(entries) == steps, "steps and per-step task sets disagree"
a2 = driver.Allocator([t, track.Parallel([track.Task("A", op), track.Task("B", op)], clients=1)])
print(a2.tasks_per_joinpoint)
assert [sorted(x.name for x in s) for s in a2.tasks_per_joinpoint] == [["T"], ["A", "B"]]
