"""
C01 / f1: with `completed-by: <task>` the sibling tasks that share a load-generator worker with ONE client of the named task are
completed as soon as that one client is finished - although the other clients of the named task are still running (the named
task is not done).

The demo runs the real DriverActor, Driver, Worker, AsyncIoAdapter, AsyncExecutor, Allocator and the real track reader on the real
Thespian actor system ("simpleSystemBase": all actors in this process). Faked are only: the Elasticsearch client (an object with a
per-client service time), track preparation / track + config loading on the workers, and the actors' logging configuration.

Run as: cd <checkout> && PYTHONPATH=<checkout> /venv/bin/python demo.py
"""
import asyncio
import datetime
import logging
import sys
import threading
import time

import thespian.actors

from esrally import actor as rally_actor
from esrally import config
from esrally.client import context as client_context
from esrally.driver import driver, runner
from esrally.track import loader
from esrally.utils import opts

EVENTS = []
LOCK = threading.Lock()

# client 2 of "index" is served quickly, clients 0 and 1 are served slowly (e.g. their shards live on a slower node)
SERVICE_TIME = {0: 0.05, 1: 0.05, 2: 0.002, 3: 0.005}

TRACK = {
    "description": "C01 f1",
    "operations": [
        {"name": "index", "operation-type": "c01-request"},
        {"name": "search", "operation-type": "c01-request"},
    ],
    "schedule": [
        {
            "parallel": {
                "completed-by": "index",
                "tasks": [
                    # 3 clients, 30 requests each
                    {"operation": "index", "clients": 3, "iterations": 30},
                    # runs until the parallel element is completed by "index"
                    {"operation": "search", "clients": 1, "warmup-time-period": 0},
                ],
            }
        }
    ],
}


class FakeEs(client_context.RequestContextHolder):
    def __init__(self, client_id):
        self.client_id = client_id

    async def close(self):
        pass


class FakeEsClientFactory:
    def __init__(self, *args, **kwargs):
        pass

    def create(self):
        return FakeEs(None)

    def create_async(self, api_key=None, client_id=None):
        return FakeEs(client_id)


class RecordingRunner:
    async def __call__(self, es, params):
        es.on_request_start()
        start = time.perf_counter()
        await asyncio.sleep(SERVICE_TIME[es.client_id])
        end = time.perf_counter()
        es.on_request_end()
        with LOCK:
            EVENTS.append((params["name"], es.client_id, start, end))
        return 1, "ops"

    def __repr__(self):
        return "c01-request"


def install_fakes():
    rally_actor.log.post_configure_actor_logging = lambda: None
    logging.getLogger("esrally").setLevel(logging.CRITICAL)
    driver.client.EsClientFactory = FakeEsClientFactory
    orig_init = driver.Driver.__init__
    driver.Driver.__init__ = lambda self, a, c, es_client_factory_class=FakeEsClientFactory: orig_init(self, a, c, es_client_factory_class)
    orig_prepare_telemetry = driver.Driver.prepare_telemetry
    driver.Driver.prepare_telemetry = lambda self, es, enable, *a, **kw: orig_prepare_telemetry(self, es, False, *a, **kw)
    # no track preparation, no config / track loading on the load generators
    driver.DriverActor.prepare_track = lambda self, hosts, cfg, t: None
    driver.load_local_config = lambda c: c
    driver.load_track = lambda cfg, install_dependencies=False: None
    runner.register_runner("c01-request", RecordingRunner(), async_runner=True)


def make_config(cores):
    cfg = config.Config()
    cfg.add(config.Scope.application, "system", "env.name", "unittest")
    cfg.add(config.Scope.application, "system", "time.start", datetime.datetime(2017, 8, 20, 1, 0, 0))
    cfg.add(config.Scope.application, "system", "race.id", "6ebc6e53-ee20-4b0c-99b4-09697987e9f4")
    cfg.add(config.Scope.application, "system", "available.cores", cores)
    cfg.add(config.Scope.application, "system", "quiet.mode", True)
    cfg.add(config.Scope.application, "node", "root.dir", "/tmp")
    cfg.add(config.Scope.application, "track", "challenge.name", "default")
    cfg.add(config.Scope.application, "track", "params", {})
    cfg.add(config.Scope.application, "track", "test.mode.enabled", True)
    cfg.add(config.Scope.application, "telemetry", "devices", [])
    cfg.add(config.Scope.application, "telemetry", "params", {})
    cfg.add(config.Scope.application, "mechanic", "car.names", ["default"])
    cfg.add(config.Scope.application, "mechanic", "skip.rest.api.check", True)
    cfg.add(config.Scope.application, "client", "hosts", opts.TargetHosts("localhost:9200"))
    cfg.add(config.Scope.application, "client", "options", opts.ClientOptions("timeout:60"))
    cfg.add(config.Scope.application, "driver", "load_driver_hosts", ["localhost"])
    cfg.add(config.Scope.application, "driver", "on.error", "abort")
    cfg.add(config.Scope.application, "driver", "profiling", False)
    cfg.add(config.Scope.application, "driver", "assertions", False)
    cfg.add(config.Scope.application, "reporting", "datastore.type", "in-memory")
    return cfg


def race(cfg, t, timeout=60):
    asys = thespian.actors.ActorSystem("simpleSystemBase", capabilities={"coordinator": True})
    completions = 0
    others = []
    try:
        d = asys.createActor(driver.DriverActor)
        asys.tell(d, driver.PrepareBenchmark(cfg, t))
        asys.tell(d, driver.StartBenchmark())
        deadline = time.perf_counter() + timeout
        completed_at = None
        while time.perf_counter() < deadline:
            msg = asys.listen(datetime.timedelta(seconds=0.1))
            if isinstance(msg, driver.BenchmarkComplete):
                completions += 1
                completed_at = time.perf_counter()
            elif isinstance(msg, (rally_actor.BenchmarkFailure, rally_actor.BenchmarkCancelled)):
                others.append(msg)
                break
            if completed_at and time.perf_counter() - completed_at > 1:
                break
    finally:
        asys.shutdown()
    return completions, others


def main():
    install_fakes()
    t = loader.TrackSpecificationReader()("c01-f1", TRACK, "/tmp")
    # one load driver host with two cores -> two workers: clients 0,1 (index) and clients 2 (index), 3 (search)
    cfg = make_config(cores=2)
    completions, others = race(cfg, t)
    if completions != 1 or others:
        print("UNEXPECTED: completions=%d others=%s" % (completions, [(o.message, o.cause) for o in others]))
        sys.exit(2)

    with LOCK:
        events = list(EVENTS)
    index = [e for e in events if e[0] == "index"]
    search = [e for e in events if e[0] == "search"]
    t0 = min(e[2] for e in events)
    per_client_end = {}
    for _, c, _, end in index:
        per_client_end[c] = max(per_client_end.get(c, 0), end)
    index_done = max(per_client_end.values())
    search_end = max(e[3] for e in search)
    for c in sorted(per_client_end):
        print("index  client %d: %2d requests, finished at t=%.3fs" % (c, len([e for e in index if e[1] == c]), per_client_end[c] - t0))
    print("search client 3: %2d requests, last request finished at t=%.3fs" % (len(search), search_end - t0))
    print("named task 'index' was done (all 3 clients) at t=%.3fs" % (index_done - t0))
    gap = index_done - search_end
    if gap > 0.2:
        print(
            "\nVIOLATION (C01, completed-by): expected 'search' to keep issuing requests until the named task 'index' is done "
            "(t=%.3fs, all 3 clients x 30 requests); observed: 'search' was completed at t=%.3fs, %.3fs too early - right when index "
            "client 2 (same worker) had finished while index clients 0 and 1 (other worker) still had %d requests to go."
            % (
                index_done - t0,
                search_end - t0,
                gap,
                len([e for e in index if e[1] in (0, 1) and e[2] > search_end]),
            )
        )
        sys.exit(1)
    print("OK: search ran until the named task was done")
    sys.exit(0)


if __name__ == "__main__":
    main()
