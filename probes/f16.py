# F16 (C16): three operations documented as retryable (create-composable-template, create-component-template, delete-component-template) are registered through Retry(...),
# but their parameter sources return a fresh dict WITHOUT the task's parameters: retries / retry-until-success / retry-wait-period never reach Retry.__call__, which then makes
# exactly one attempt. Siblings (create-index-template, create-index, ...) forward `self._params`. run: /venv/bin/python probes/f16.py (expects attempts=3 -> success)
import asyncio, sys
sys.path.insert(0, "/repo")
import elasticsearch
from esrally.track import params, track
from esrally.driver import runner

bad = 0
t = track.Track(name="t", composable_templates=[track.IndexTemplate("tpl", "logs-*", {"template": {}})], component_templates=[track.ComponentTemplate("c", {"template": {}})])
for op_type, opp in (("create-composable-template", {}), ("create-component-template", {}), ("delete-component-template", {})):
    src = params.param_source_for_operation(op_type, t, {"retries": 2, "retry-wait-period": 0, **opp}, "task")
    p = src.params()
    calls = []
    class Delegate:
        async def __call__(self, es, params):
            calls.append(1)
            if len(calls) < 3:
                raise elasticsearch.ConnectionTimeout("timeout")
            return {"weight": 1, "unit": "ops", "success": True}
        def __repr__(self): return "delegate"
    r = runner.Retry(Delegate())
    try:
        asyncio.run(r(None, p))
        out = "success"
    except elasticsearch.ConnectionTimeout:
        out = "ConnectionTimeout propagated"
    bad = bad + 1 if len(calls) != 3 else bad
    print(f"{op_type}: task says retries=2; params() keeps retries: {'retries' in p}; attempts={len(calls)} -> {out}")
raise SystemExit(f"FAIL: {bad} retryable operation(s) ignore the configured retries" if bad else 0)
