"""
C20 / f4: the neutral band of ComparisonReporter._diff is |diff| < 10**-precision, but the number is
printed with round-to-nearest at that precision, so every difference in [0.5, 1.0) * 10**-precision is
PRINTED as a non-zero value ("0.00001", "-0.00001", "0.01%", "-0.01%") and yet treated as "zero":
neutral colour and no "+" sign.  The very same printed digits are signed and coloured as a regression /
improvement when the difference is a hair larger.  The property only exempts differences that print as
zero from being marked.

Runs the real esrally code end to end (FileRaceStore + reporter.compare()); only stdout is captured.

run: cd <checkout> && PYTHONPATH=<checkout> /venv/bin/python demo.py
"""
import contextlib
import csv
import datetime
import io
import os
import re
import sys
import tempfile

from esrally import config, metrics, reporter, track
from esrally.utils import console

COLOURS = {"31": "red", "32": "green", "39": "neutral"}
CELL = re.compile(r"^\x1b\[(\d+);1m(.*)\x1b\[0m$")


def make_cfg(root, report_format="csv"):
    cfg = config.Config()
    cfg.add(config.Scope.application, "system", "env.name", "demo")
    cfg.add(config.Scope.application, "node", "root.dir", root)
    cfg.add(config.Scope.application, "node", "rally.cwd", root)
    cfg.add(config.Scope.application, "reporting", "datastore.type", "in-memory")
    cfg.add(config.Scope.application, "reporting", "format", report_format)
    cfg.add(config.Scope.application, "reporting", "output.path", "")
    cfg.add(config.Scope.application, "reporting", "numbers.align", "decimal")
    return cfg


def store_race(cfg, race_id, results):
    """persists a race exactly as `esrally race` does (Race.as_dict -> race.json)"""
    cfg.add(config.Scope.application, "system", "race.id", race_id)
    race = metrics.Race(
        rally_version="2.12.0",
        rally_revision=None,
        environment_name="demo",
        race_id=race_id,
        race_timestamp=datetime.datetime(2024, 1, 1, 12, 0, 0),
        pipeline="benchmark-only",
        user_tags={},
        track=track.Track(name="demo-track"),
        track_params=None,
        challenge=track.Challenge(name="demo-challenge"),
        car="external",
        car_params=None,
        plugin_params=None,
    )
    race.add_results(metrics.GlobalStats(results))
    metrics.FileRaceStore(cfg).store_race(race)


def compare(cfg, baseline_id, contender_id):
    """returns {metric: (diff_text, diff_colour, pct_text, pct_colour)} parsed from the console output"""
    out = io.StringIO()
    with contextlib.redirect_stdout(out):
        reporter.compare(cfg, baseline_id, contender_id)
    text = out.getvalue()
    table = text[text.index("Metric,Task,Baseline,Contender,Diff,Unit,Diff %") :]
    rows = {}
    for row in list(csv.reader(io.StringIO(table)))[1:]:
        if len(row) != 7:
            continue
        d, p = CELL.match(row[4]), CELL.match(row[6])
        rows[row[0]] = (d.group(2), COLOURS[d.group(1)], p.group(2), COLOURS[p.group(1)], row[2], row[3])
    return rows


def results(latency_p50, store_size, throughput):
    return {
        "store_size": store_size,
        "op_metrics": [
            {
                "task": "term-query",
                "operation": "term",
                "throughput": {"min": throughput, "mean": throughput, "median": throughput, "max": throughput, "unit": "ops/s"},
                "latency": {"50_0": latency_p50, "mean": latency_p50, "unit": "ms"},
                "service_time": {"50_0": latency_p50, "mean": latency_p50, "unit": "ms"},
                "processing_time": {},
                "error_rate": 0.0,
                "duration": 1000,
            }
        ],
    }


def main():
    console.init(quiet=False, assume_tty=True)  # what esrally's main() does; colours on
    if console.format is not console.RichFormat:
        print("this demo needs a colour capable TERM (TERM must not be 'dumb')")
        return 2
    root = tempfile.mkdtemp(prefix="c20-f4-")
    cfg = make_cfg(root)
    GB = 1024**3
    store_race(cfg, "race-a", results(latency_p50=2.0, store_size=100 * GB, throughput=100.0))
    # +0.000007 ms latency, +0.007 % store size, -0.000007 ops/s throughput
    store_race(cfg, "race-b", results(latency_p50=2.000007, store_size=int(100.007 * GB), throughput=99.999993))
    # +0.000011 ms latency, +0.011 % store size, -0.000011 ops/s throughput
    store_race(cfg, "race-c", results(latency_p50=2.000011, store_size=int(100.011 * GB), throughput=99.999989))

    interesting = ["Store size", "Min Throughput", "50th percentile latency"]
    problems = []
    for contender in ("race-b", "race-c"):
        rows = compare(cfg, "race-a", contender)
        print(f"baseline=race-a contender={contender}")
        for name in interesting:
            d, dc, p, pc, b, c = rows[name]
            print(f"  {name:25s} Diff={d:>10s} [{dc:7s}]  Diff %={p:>8s} [{pc:7s}]")
            for column, text, colour in (("Diff", d, dc), ("Diff %", p, pc)):
                number = float(text.rstrip("%"))
                if number != 0 and colour == "neutral":
                    sign = "+" if number > 0 else "-"
                    problems.append(
                        f"race-a vs {contender}: {name}: {column} prints the non-zero value {text!r} in the neutral colour"
                        + (" and without the '+' sign" if number > 0 else "")
                        + f"; expected it to be marked like every other {sign} change (only differences that print as zero are neutral)"
                    )

    if problems:
        print("\nFAIL - C20 violated (a difference that does not print as zero is treated as zero):")
        for p in problems:
            print("  * " + p)
        return 1
    print("\nOK - every difference that prints as non-zero is signed and coloured")
    return 0


if __name__ == "__main__":
    sys.exit(main())
