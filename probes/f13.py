# Drive, then CompleteCurrentTask (sent because another worker already finished the completing task), then the worker's own
# start wake-up: the completion request must not be lost, otherwise the worker runs its (possibly eternal) task forever.
import threading, logging, time
from unittest import mock
from esrally.driver import driver
from esrally.track import track
w = driver.Worker.__new__(driver.Worker)
w.logger = logging.getLogger("x"); w.config = mock.MagicMock(); w.worker_id = 1; w.client_contexts = {}
w.on_error = "continue"; w.track = None; w.sample_queue_size = 10
w.cancel = threading.Event(); w.complete = threading.Event()
w.executor_future = None; w.sampler = None; w.start_driving = False; w.wakeup_interval = 1
w.pool = mock.Mock(); w.driver_actor = "drv"
sent = []; wake = []
w.send = lambda a, m: sent.append(type(m).__name__)
w.wakeupAfter = lambda *a, **k: wake.append(a)
op = track.Operation("op", "bulk", params={})
tA = track.Task("A", op, completes_parent=True); tB = track.Task("B", op)   # B is eternal without completion
alloc = driver.Allocator([track.Parallel([tA, tB], clients=2)]).allocations
ca = driver.ClientAllocations(); ca.add(1, alloc[1])     # this worker runs client 1 -> task B
w.client_allocations = ca
w.current_task_index = 0; w.next_task_index = 1           # sitting at the initial join point
H = driver.Worker
unwrap = lambda f: f.__closure__[0].cell_contents if f.__closure__ else f
def handle(name, msg):
    getattr(H, name)(w, msg, "drv")
handle("receiveMsg_Drive", driver.Drive(time.perf_counter() + 0.5))   # start scheduled, wake-up pending
handle("receiveMsg_CompleteCurrentTask", driver.CompleteCurrentTask())  # the other worker has already finished task A
handle("receiveMsg_WakeupMessage", None)                                # start wake-up fires
started = w.pool.submit.called
print("sent", sent, "task B started:", started, "complete set:", w.complete.is_set())
assert not (started and not w.complete.is_set()), "completion request lost: worker runs task B although the parallel element was completed"
