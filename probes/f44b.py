"""
C01 / f2: a `parallel` element with `completed-by: <task>` whose `clients` is smaller than the sum of its tasks' clients (documented:
"Rally will only use that many clients in total", the surplus tasks are run one after the other by the same clients). When a worker
runs one client of the named task in an earlier round and another client of the named task in a later round, the later client is
never run: the first finished client of the named task sets the worker-wide "complete" flag and the worker then *skips* everything up
to the next join point - including the rest of the named task itself. The race nevertheless reports completion.

The demo runs the real DriverActor, Driver, Worker, AsyncIoAdapter, AsyncExecutor, Allocator and the real track reader on the real
Thespian actor system ("simpleSystemBase": all actors in this process). Faked are only: the Elasticsearch client, track preparation /
track + config loading on the workers, and the actors' logging configuration.

Run as: cd <checkout> && PYTHONPATH=<checkout> /venv/bin/python demo.py
"""
import asyncio
import datetime
import logging
import sys
import threading
import time

import thespian.actors

from esrally import actor as rally_actor
from esrally import config
from esrally.client import context as client_context
from esrally.driver import driver, runner
from esrally.track import loader
from esrally.utils import opts

EVENTS = []
LOCK = threading.Lock()

SERVICE_TIME = {0: 0.005, 1: 0.005}

TRACK = {
    "description": "C01 f2",
    "operations": [
        {"name": "index", "operation-type": "c01-request"},
        {"name": "search", "operation-type": "c01-request"},
    ],
    "schedule": [
        {
            "parallel": {
                # only two clients in total (see docs/track.rst, "we want to run only with two clients *in total*")
                "clients": 2,
                "completed-by": "index",
                "tasks": [
                    {"operation": "search", "clients": 1, "iterations": 10},
                    # two clients (= two partitions of the work), 20 requests each
                    {"operation": "index", "clients": 2, "iterations": 20},
                ],
            }
        }
    ],
}


class FakeEs(client_context.RequestContextHolder):
    def __init__(self, client_id):
        self.client_id = client_id

    async def close(self):
        pass


class FakeEsClientFactory:
    def __init__(self, *args, **kwargs):
        pass

    def create(self):
        return FakeEs(None)

    def create_async(self, api_key=None, client_id=None):
        return FakeEs(client_id)


class RecordingRunner:
    async def __call__(self, es, params):
        es.on_request_start()
        start = time.perf_counter()
        await asyncio.sleep(SERVICE_TIME[es.client_id])
        end = time.perf_counter()
        es.on_request_end()
        with LOCK:
            EVENTS.append((params["name"], es.client_id, start, end))
        return 1, "ops"

    def __repr__(self):
        return "c01-request"


def install_fakes():
    rally_actor.log.post_configure_actor_logging = lambda: None
    logging.getLogger("esrally").setLevel(logging.CRITICAL)
    driver.client.EsClientFactory = FakeEsClientFactory
    orig_init = driver.Driver.__init__
    driver.Driver.__init__ = lambda self, a, c, es_client_factory_class=FakeEsClientFactory: orig_init(self, a, c, es_client_factory_class)
    orig_prepare_telemetry = driver.Driver.prepare_telemetry
    driver.Driver.prepare_telemetry = lambda self, es, enable, *a, **kw: orig_prepare_telemetry(self, es, False, *a, **kw)
    # no track preparation, no config / track loading on the load generators
    driver.DriverActor.prepare_track = lambda self, hosts, cfg, t: None
    driver.load_local_config = lambda c: c
    driver.load_track = lambda cfg, install_dependencies=False: None
    runner.register_runner("c01-request", RecordingRunner(), async_runner=True)


def make_config(cores):
    cfg = config.Config()
    cfg.add(config.Scope.application, "system", "env.name", "unittest")
    cfg.add(config.Scope.application, "system", "time.start", datetime.datetime(2017, 8, 20, 1, 0, 0))
    cfg.add(config.Scope.application, "system", "race.id", "6ebc6e53-ee20-4b0c-99b4-09697987e9f4")
    cfg.add(config.Scope.application, "system", "available.cores", cores)
    cfg.add(config.Scope.application, "system", "quiet.mode", True)
    cfg.add(config.Scope.application, "node", "root.dir", "/tmp")
    cfg.add(config.Scope.application, "track", "challenge.name", "default")
    cfg.add(config.Scope.application, "track", "params", {})
    cfg.add(config.Scope.application, "track", "test.mode.enabled", True)
    cfg.add(config.Scope.application, "telemetry", "devices", [])
    cfg.add(config.Scope.application, "telemetry", "params", {})
    cfg.add(config.Scope.application, "mechanic", "car.names", ["default"])
    cfg.add(config.Scope.application, "mechanic", "skip.rest.api.check", True)
    cfg.add(config.Scope.application, "client", "hosts", opts.TargetHosts("localhost:9200"))
    cfg.add(config.Scope.application, "client", "options", opts.ClientOptions("timeout:60"))
    cfg.add(config.Scope.application, "driver", "load_driver_hosts", ["localhost"])
    cfg.add(config.Scope.application, "driver", "on.error", "abort")
    cfg.add(config.Scope.application, "driver", "profiling", False)
    cfg.add(config.Scope.application, "driver", "assertions", False)
    cfg.add(config.Scope.application, "reporting", "datastore.type", "in-memory")
    return cfg


def race(cfg, t, timeout=60):
    asys = thespian.actors.ActorSystem("simpleSystemBase", capabilities={"coordinator": True})
    completions = 0
    others = []
    try:
        d = asys.createActor(driver.DriverActor)
        asys.tell(d, driver.PrepareBenchmark(cfg, t))
        asys.tell(d, driver.StartBenchmark())
        deadline = time.perf_counter() + timeout
        completed_at = None
        while time.perf_counter() < deadline:
            msg = asys.listen(datetime.timedelta(seconds=0.1))
            if isinstance(msg, driver.BenchmarkComplete):
                completions += 1
                completed_at = time.perf_counter()
            elif isinstance(msg, (rally_actor.BenchmarkFailure, rally_actor.BenchmarkCancelled)):
                others.append(msg)
                break
            if completed_at and time.perf_counter() - completed_at > 1:
                break
    finally:
        asys.shutdown()
    return completions, others


def run_layout(cores):
    with LOCK:
        EVENTS.clear()
    t = loader.TrackSpecificationReader()("c01-f2", TRACK, "/tmp")
    cfg = make_config(cores=cores)
    completions, others = race(cfg, t)
    if completions != 1 or others:
        print("UNEXPECTED: completions=%d others=%s" % (completions, [(o.message, o.cause) for o in others]))
        sys.exit(2)
    with LOCK:
        events = list(EVENTS)
    return len([e for e in events if e[0] == "index"]), len([e for e in events if e[0] == "search"])


def main():
    install_fakes()
    # allocation matrix (2 clients):  client 0: search, index[client 1 of 2]   client 1: index[client 0 of 2], -
    allocations = driver.Allocator(loader.TrackSpecificationReader()("c01-f2", TRACK, "/tmp").challenges[0].schedule).allocations
    for client_id, a in enumerate(allocations):
        print("client %d: %s" % (client_id, a))
    expected = 2 * 20
    failed = False
    for cores in (2, 1):
        index_requests, search_requests = run_layout(cores)
        print(
            "load driver with %d core(s) -> %d worker(s): race reported completion once; 'index' issued %d of %d requests, 'search' %d of 10"
            % (cores, cores, index_requests, expected, search_requests)
        )
        if index_requests != expected:
            failed = True
            print(
                "\nVIOLATION (C01): expected both clients allocated to the named task 'index' to run it exactly once (2 x 20 = %d requests) "
                "before the element is completed by it; observed with %d core(s): only %d requests - the second client of 'index' "
                "(scheduled after 'search' on client 0) was skipped because the first client of 'index' had finished, i.e. half of the "
                "named task was never executed and the race still reported completion." % (expected, cores, index_requests)
            )
    sys.exit(1 if failed else 0)


if __name__ == "__main__":
    main()
