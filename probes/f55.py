"""
C17 / f2: the first call that every Elasticsearch-backed store (EsMetricsStore, EsRaceStore, EsResultsStore) sends to the
metrics store - the cluster version probe issued by metrics.EsClientFactory.__init__ (on by default,
datastore.probe.cluster_version) - does NOT go through EsClient.guarded(). A transient HTTP 503 or a refused connection is
therefore neither retried with pauses nor turned into a Rally error, and a wrong password surfaces as a raw
elasticsearch AuthenticationException instead of the SystemSetupError that guarded() would produce.

Nothing inside rally / elasticsearch-py / elastic_transport / urllib3 is faked. The "metrics store" is a tiny HTTP server on
127.0.0.1 whose answers are scripted; esrally.time.sleep and time.sleep are recorded instead of executed so that we can see whether
anybody backs off.

Run:  cd <checkout> && PYTHONPATH=<checkout> /venv/bin/python demo.py
"""
import http.server
import json
import socket
import sys
import threading
import time as std_time
import warnings

warnings.simplefilter("ignore")

from esrally import config, exceptions, metrics  # noqa: E402
from esrally import time as rally_time  # noqa: E402

INFO = {
    "name": "metrics-node",
    "cluster_name": "metrics",
    "version": {"number": "8.6.1", "build_flavor": "default", "build_hash": "abc"},
    "tagline": "You Know, for Search",
}


class ScriptedStore(http.server.BaseHTTPRequestHandler):
    script = []  # status codes for the next requests; when exhausted everything is answered with 200
    seen = []

    def do_GET(self):  # pylint: disable=invalid-name
        status = ScriptedStore.script.pop(0) if ScriptedStore.script else 200
        ScriptedStore.seen.append((self.path, status))
        if status == 200:
            body = INFO if self.path == "/" else {"status": "green", "number_of_nodes": 1}
        elif status == 401:
            body = {"error": {"type": "security_exception", "reason": "unable to authenticate user [rally]"}, "status": 401}
        else:
            body = {"error": {"type": "cluster_block_exception", "reason": "state not recovered / initialized"}, "status": status}
        raw = json.dumps(body).encode("utf-8")
        self.send_response(status)
        self.send_header("content-type", "application/json")
        self.send_header("x-elastic-product", "Elasticsearch")
        self.send_header("content-length", str(len(raw)))
        self.end_headers()
        self.wfile.write(raw)

    def log_message(self, *args):  # silence
        pass


def cfg_for(port):
    cfg = config.Config()
    cfg.add(config.Scope.application, "system", "env.name", "demo")
    cfg.add(config.Scope.application, "node", "rally.root", ".")
    cfg.add(config.Scope.application, "reporting", "datastore.type", "elasticsearch")
    cfg.add(config.Scope.application, "reporting", "datastore.host", "127.0.0.1")
    cfg.add(config.Scope.application, "reporting", "datastore.port", port)
    cfg.add(config.Scope.application, "reporting", "datastore.secure", False)
    cfg.add(config.Scope.application, "reporting", "datastore.user", "rally")
    cfg.add(config.Scope.application, "reporting", "datastore.password", "secret")
    # datastore.probe.cluster_version is left at its documented default (true)
    return cfg


def attempt(label, cfg, pauses):
    """what racecontrol.on_benchmark_complete() does at the very end of a race: metrics.results_store(cfg)"""
    del pauses[:]
    try:
        store = metrics.results_store(cfg)
        return label, "ok", type(store).__name__, list(pauses)
    except exceptions.RallyError as e:
        return label, "rally-error", f"{type(e).__name__}: {e.message}", list(pauses)
    except BaseException as e:  # pylint: disable=broad-except
        return label, "raw", f"{type(e).__module__}.{type(e).__name__}: {e}", list(pauses)


def main():
    pauses = []
    rally_time.sleep = pauses.append  # used by metrics.EsClient.guarded
    std_time.sleep = pauses.append  # used by client.factory.wait_for_rest_layer

    server = http.server.ThreadingHTTPServer(("127.0.0.1", 0), ScriptedStore)
    port = server.server_address[1]
    threading.Thread(target=server.serve_forever, daemon=True).start()

    results = []

    # (1) the store answers 503 for a moment (e.g. master election / node restart), then it is healthy again.
    #     Four 503s because elastic_transport itself re-sends three times *immediately*.
    ScriptedStore.script = [503, 503, 503, 503]
    ScriptedStore.seen = []
    results.append(attempt("transient HTTP 503, then healthy", cfg_for(port), pauses) + (list(ScriptedStore.seen),))

    # control: the very same store object can be created a moment later
    ScriptedStore.seen = []
    results.append(attempt("control: healthy store", cfg_for(port), pauses) + (list(ScriptedStore.seen),))

    # (2) wrong password
    ScriptedStore.script = [401]
    ScriptedStore.seen = []
    results.append(attempt("HTTP 401", cfg_for(port), pauses) + (list(ScriptedStore.seen),))

    # (3) connection refused (nobody listens on that port)
    s = socket.socket()
    s.bind(("127.0.0.1", 0))
    closed_port = s.getsockname()[1]
    s.close()
    results.append(attempt("connection refused", cfg_for(closed_port), pauses) + ([],))

    server.shutdown()

    failures = []
    for label, kind, detail, slept, seen in results:
        print(f"* {label}: outcome={kind} [{detail}] pauses={slept} requests={seen}")
        if label.startswith("control"):
            assert kind == "ok", "demo is broken: a healthy store must be usable"
            continue
        if kind == "raw":
            failures.append((label, detail, slept))

    if failures:
        print("\nPROPERTY C17 VIOLATED (\"Every call to the Elasticsearch metrics store is retried with exponentially growing pauses on "
              "connection errors and HTTP 429/502/503/504 ...; authentication ... errors ... surface as Rally errors naming the cause, "
              "as does exhausting the retries\"):")
        for label, detail, slept in failures:
            print(f"  [{label}]\n    EXPECTED: metrics.results_store(cfg) either succeeds after backing off or raises an "
                  f"esrally.exceptions.RallyError naming the cause.\n    OBSERVED: {detail} escaped from metrics.EsClientFactory.__init__ "
                  f"(pauses taken before giving up: {slept}).")
        sys.exit(1)
    print("OK")


if __name__ == "__main__":
    main()
