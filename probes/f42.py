#!/usr/bin/env python
"""
C12 / finding 3: when the NodeMechanicActor of a host dies while it starts its nodes, race control is never told: the race hangs.

thespian reports the death of an actor process to the actor's *parent* (ChildActorExited). The NodeMechanicActors are created by the
Dispatcher, so the Dispatcher is their parent - and the Dispatcher has no handler for ChildActorExited (it ends up in
receiveUnrecognizedMessage, which only logs). MechanicActor.receiveMsg_ChildActorExited, which would turn it into a
BenchmarkFailure, is only ever told about the Dispatcher itself.

Everything is real (thespian multiprocTCPBase on the loopback interface, MechanicActor / Dispatcher / NodeMechanicActor / Mechanic)
except that ``mechanic.create`` hands the real ``Mechanic`` a launcher whose ``start()`` (which stands in for "download, install and
launch Elasticsearch") on the second host either raises a LaunchError (control) or is interrupted by the death of its process
(SIGKILL, as the kernel's OOM killer or an operator would send it; a SystemExit raised below receiveMsg_StartNodes, which only catches
Exception, has the same effect).

Run as:  cd <checkout> && PYTHONPATH=<checkout> /venv/bin/python demo.py
"""
import os
import shutil
import signal
import socket
import sys
import tempfile
import time

LISTEN_SECONDS = 30


def free_port():
    s = socket.socket()
    s.bind(("127.0.0.1", 0))
    p = s.getsockname()[1]
    s.close()
    return p


def install_fakes(workdir):
    from esrally import exceptions
    from esrally.mechanic import mechanic

    class Launcher:
        def __init__(self, port):
            self.port = port

        def start(self, node_configurations):
            with open(os.path.join(workdir, "mode")) as f:
                mode = f.read()
            if self.port == 39201:
                # the other host is given a moment to come up first
                time.sleep(1)
                if mode == "launch-error":
                    raise exceptions.LaunchError("Daemon startup failed with exit code [1]")
                elif mode == "killed":
                    os.kill(os.getpid(), signal.SIGKILL)
            return []

        def stop(self, nodes, metrics_store):
            return []

    def create(cfg, metrics_store, node_ip, node_http_port, all_node_ips, all_node_ids, sources=False, distribution=False,
               external=False, docker=False):
        return mechanic.Mechanic(cfg, metrics_store, supply=lambda: {}, provisioners=[], launcher=Launcher(node_http_port))

    mechanic.create = create


def make_team(workdir):
    team = os.path.join(workdir, "team")
    os.makedirs(os.path.join(team, "cars", "v1", "vanilla", "templates", "config"), exist_ok=True)
    with open(os.path.join(team, "cars", "v1", "defaults.ini"), "w") as f:
        f.write("[meta]\ndescription=demo\ntype=car\n\n[config]\nbase=vanilla\n\n[variables]\nruntime.jdk=21\nruntime.jdk.bundled=true\n")
    with open(os.path.join(team, "cars", "v1", "vanilla", "templates", "config", "elasticsearch.yml"), "w") as f:
        f.write("http.port: {{http_port}}\n")
    return team


def make_cfg(workdir, target_hosts):
    from esrally import config
    from esrally.utils import opts

    cfg = config.Config()
    if not cfg.config_present():
        cfg.install_default_config()
    cfg.load_config()
    o = config.Scope.applicationOverride
    cfg.add(o, "system", "race.id", "c12-f3")
    cfg.add(o, "system", "install.id", "c12-f3")
    cfg.add(o, "system", "offline.mode", True)
    cfg.add(o, "mechanic", "team.path", make_team(workdir))
    cfg.add(o, "mechanic", "repository.revision", None)
    cfg.add(o, "mechanic", "car.names", ["defaults"])
    cfg.add(o, "mechanic", "car.params", {})
    cfg.add(o, "mechanic", "car.plugins", [])
    cfg.add(o, "mechanic", "plugin.params", {})
    cfg.add(o, "mechanic", "distribution.version", "8.0.0")
    cfg.add(o, "mechanic", "runtime.jdk", "bundled")
    cfg.add(o, "mechanic", "preserve.install", False)
    cfg.add(o, "client", "hosts", opts.TargetHosts(target_hosts))
    cfg.add(o, "telemetry", "devices", [])
    cfg.add(o, "telemetry", "params", {})
    cfg.add(o, "race", "user.tags", {})
    cfg.add(o, "track", "params", {})
    return cfg


def describe(received):
    from esrally import actor

    if isinstance(received, actor.BenchmarkFailure):
        return "BenchmarkFailure [%s]" % str(received.message).strip().splitlines()[-1]
    elif received is None:
        return "nothing"
    else:
        return type(received).__name__


def scenario(asys, workdir, mode):
    """Plays race control: StartEngine for two hosts (two node mechanics); returns what race control is told."""
    import thespian.actors

    from esrally.mechanic import mechanic

    with open(os.path.join(workdir, "mode"), "w") as f:
        f.write(mode)
    logfile = os.path.join(workdir, ".rally", "logs", "rally.log")
    log_offset = os.path.getsize(logfile) if os.path.exists(logfile) else 0
    cfg = make_cfg(workdir, "127.0.0.1:39200,127.0.0.1:39201")
    # a private endpoint per scenario: messages that belong to the other scenario cannot be mistaken for this one's
    with asys.private() as race_control:
        mech = race_control.createActor(mechanic.MechanicActor, targetActorRequirements={"coordinator": True})
        open_ctx = {"race-id": "c12-f3", "race-timestamp": "20260101T000000Z", "track": "t", "challenge": "c", "car": ["defaults"]}
        race_control.tell(mech, mechanic.StartEngine(cfg, open_ctx, sources=False, distribution=True, external=False, docker=False))
        deadline = time.time() + LISTEN_SECONDS
        received = None
        while received is None and time.time() < deadline:
            received = race_control.listen(max(0.1, deadline - time.time()))
        print("--- second host: %-12s -> race control is told within %d s: %s" % (mode, LISTEN_SECONDS, describe(received)))
        # what the Dispatcher has logged about dying children up to here (i.e. before the tear-down)
        with open(logfile) as f:
            f.seek(log_offset)
            dispatcher_log = [line.strip() for line in f if "Dispatcher" in line and "ChildActorExited" in line]
        # tear down like racecontrol.race() does in its finally block
        race_control.tell(mech, thespian.actors.ActorExitRequest())
        time.sleep(1)
    return received, dispatcher_log


def main():
    import thespian.actors

    from esrally import actor, log

    workdir = tempfile.mkdtemp(prefix="c12-f3-")
    # keep everything (rally.ini, logging.json, logs) away from the real ~/.rally
    os.environ["RALLY_HOME"] = workdir
    log.install_default_log_config()
    install_fakes(workdir)
    port = free_port()
    asys = thespian.actors.ActorSystem(
        "multiprocTCPBase",
        logDefs=log.load_configuration(),
        # as actor.bootstrap_actor_system(prefer_local_only=True), but not on Rally's fixed port 1900
        capabilities={"coordinator": True, "ip": "127.0.0.1", "Convention Address.IPv4": "127.0.0.1:%d" % port, "Admin Port": port},
    )
    rc = 0
    try:
        control, _ = scenario(asys, workdir, "launch-error")
        if not isinstance(control, actor.BenchmarkFailure):
            print("SETUP PROBLEM: the control scenario did not produce a BenchmarkFailure")
            return 3
        observed, dispatcher_log = scenario(asys, workdir, "killed")
        print()
        print("EXPECTED: a host that cannot start its nodes because its node mechanic died is reported to race control as a "
              "BenchmarkFailure")
        if isinstance(observed, actor.BenchmarkFailure):
            print("OBSERVED: %s - the property holds" % describe(observed))
        else:
            rc = 1
            print("OBSERVED: race control is told %s; the MechanicActor waits for the missing NodesStarted forever." % describe(observed))
            for line in dispatcher_log:
                print("          rally.log: " + line)
    finally:
        asys.shutdown()
        shutil.rmtree(workdir, ignore_errors=True)
    return rc


if __name__ == "__main__":
    sys.exit(main())
