"""
C08 / f1: an index-time metric record whose ``per-shard`` array is empty makes the whole result
calculation of the race fail with ``ValueError: min() arg is an empty sequence``.

Everything below is real rally code; only the Elasticsearch client handed to the IndexStats telemetry
device is faked (one method, ``indices.stats``).

Run as:  cd <checkout> && PYTHONPATH=<checkout> /venv/bin/python demo.py
"""
import datetime
import json
import os
import sys
import tempfile
import traceback

from esrally import config, metrics, racecontrol, telemetry
from esrally.track import Challenge, Operation, Task, Track

RACE_ID = "c08-f1"


class FakeIndices:
    """indices.stats() answers with cluster-wide primaries totals, but without shard-level entries
    (what one gets when the shard level is not part of the answer, e.g. ``level`` not honoured)."""

    def stats(self, metric=None, level=None):
        totals = {
            "segments": {"count": 7, "memory_in_bytes": 0},
            "merges": {"total_time_in_millis": 300, "total_throttled_time_in_millis": 0, "total": 3},
            "indexing": {"index_time_in_millis": 1200, "throttle_time_in_millis": 0},
            "refresh": {"total_time_in_millis": 50, "total": 5},
            "flush": {"total_time_in_millis": 20, "total": 2},
        }
        return {
            "_all": {"primaries": totals, "total": {"store": {"size_in_bytes": 1000}, "translog": {"size_in_bytes": 10}}},
            # index level only: no "shards" key below the index
            "indices": {"geonames": {"primaries": totals}},
        }


class FakeClient:
    indices = FakeIndices()


def main():
    root = tempfile.mkdtemp()
    cfg = config.Config()
    cfg.add(config.Scope.application, "system", "env.name", "unittest")
    cfg.add(config.Scope.application, "system", "race.id", RACE_ID)
    cfg.add(config.Scope.application, "system", "time.start", datetime.datetime(2024, 1, 31, 12, 0, 0))
    cfg.add(config.Scope.application, "node", "root.dir", root)
    cfg.add(config.Scope.application, "node", "rally.cwd", root)
    cfg.add(config.Scope.application, "track", "params", {})
    cfg.add(config.Scope.application, "mechanic", "car.names", ["defaults"])
    cfg.add(config.Scope.application, "mechanic", "car.params", {})
    cfg.add(config.Scope.application, "mechanic", "plugin.params", {})
    cfg.add(config.Scope.application, "race", "pipeline", "benchmark-only")
    cfg.add(config.Scope.application, "reporting", "datastore.type", "in-memory")
    cfg.add(config.Scope.application, "reporting", "output.path", "")
    cfg.add(config.Scope.application, "reporting", "format", "markdown")
    cfg.add(config.Scope.application, "reporting", "values", "available")

    op = Operation(name="index", operation_type="bulk", params={})
    task = Task("index", operation=op, schedule="deterministic")
    challenge = Challenge(name="append", schedule=[task], meta_data={})
    trk = Track(name="geonames", meta_data={})

    # --- the load driver's side: request samples + the IndexStats telemetry device at benchmark stop ---
    driver_store = metrics.metrics_store(cfg, read_only=False, track=trk.name, challenge=challenge.name)
    for i, v in enumerate([10.0, 20.0, 30.0, 40.0]):
        for name in ("latency", "service_time", "processing_time"):
            driver_store.put_value_cluster_level(
                name, v, "ms", task="index", operation="index", operation_type="bulk",
                sample_type=metrics.SampleType.Normal, relative_time=i, meta_data={"success": True},
            )
        driver_store.put_value_cluster_level(
            "throughput", 1000.0 + v, "docs/s", task="index", operation="index", operation_type="bulk",
            sample_type=metrics.SampleType.Normal, relative_time=i,
        )
    telemetry.IndexStats(FakeClient(), driver_store).on_benchmark_stop()
    produced = [d for d in driver_store.docs if "per-shard" in d]
    print("IndexStats stored %d index-time records; per-shard arrays: %s" % (len(produced), sorted({str(d["per-shard"]) for d in produced})))
    memento = driver_store.to_externalizable(clear=True)

    # --- the benchmark coordinator's side (racecontrol), exactly as on BenchmarkComplete ---
    coordinator = racecontrol.BenchmarkCoordinator(cfg)
    coordinator.race = metrics.create_race(cfg, trk, challenge)
    coordinator.metrics_store = metrics.metrics_store(cfg, read_only=False, track=trk.name, challenge=challenge.name)
    coordinator.race_store = metrics.race_store(cfg)
    coordinator.on_preparation_complete("default", "8.12.0", "abc")

    failure = None
    try:
        coordinator.on_benchmark_complete(memento)
    except BaseException as e:  # pylint: disable=broad-except
        failure = e
        traceback.print_exc()

    with open(os.path.join(root, "races", RACE_ID, "race.json"), encoding="utf-8") as f:
        stored = json.load(f)
    read_back = metrics.race_store(cfg).find_by_race_id(RACE_ID)

    problems = []
    if failure is not None:
        problems.append("result calculation raised %s: %s" % (type(failure).__name__, failure))
    if "results" not in stored or not read_back.results:
        problems.append("race.json has no 'results' although four normal samples per metric were recorded for task 'index'")
    else:
        m = metrics.GlobalStats(read_back.results).metrics("index")
        if m is None or m["service_time"].get("100_0") != 40.0:
            problems.append("per-task metrics of 'index' are wrong after reading the race back: %s" % m)

    if problems:
        print("\nEXPECTED: the race results are computed from the 4 normal samples (p100 service time = 40.0 ms, "
              "cumulative indexing time = 1200 ms), the per-shard min/median/max lines are simply absent, "
              "and the results are written to race.json.")
        print("OBSERVED: " + "; ".join(problems))
        sys.exit(1)
    print("OK: results were computed and survived storage")


if __name__ == "__main__":
    main()
