"""
C19 / f2: bulk error accounting crashes with a TypeError on a well-formed bulk response in which two
failed items share the HTTP status but only one of them carries an error reason.

BulkIndex.extract_error_details() collects (status, reason) tuples where reason is None for an item
without `error` (or whose error has `"reason": null`); BulkIndex.error_description() then calls
sorted() on that set, and Python cannot order (404, None) against (404, "...").  Both the fast path
(simple_stats, after the full re-parse) and the detailed path (detailed_stats) go through it.

Response A is what Elasticsearch answers to a bulk with an `index`, a `delete` of a document that does
not exist (status 404, result not_found, NO error object) and an `update` of a document that does not
exist (status 404, document_missing_exception).  Response B has two 500 items, one of them with
`"reason": null` (exceptions without a message, e.g. null_pointer_exception, are rendered that way).

Only the client is faked (es.bulk returns the canned response, raw on the fast path and parsed on the
detailed path); BulkIndex and driver.execute_single are the real code.

Run:  cd <checkout> && PYTHONPATH=<checkout> /venv/bin/python demo.py
"""
import asyncio
import io
import json
import sys

from esrally.driver import driver, runner

SHARDS_OK = {"total": 2, "successful": 1, "failed": 0}

RESPONSE_A = {
    "took": 7,
    "errors": True,
    "items": [
        {"index": {"_index": "logs", "_id": "1", "_version": 1, "result": "created", "_shards": SHARDS_OK, "_seq_no": 0, "_primary_term": 1, "status": 201}},
        {"delete": {"_index": "logs", "_id": "2", "_version": 1, "result": "not_found", "_shards": SHARDS_OK, "_seq_no": 1, "_primary_term": 1, "status": 404}},
        {
            "update": {
                "_index": "logs",
                "_id": "3",
                "status": 404,
                "error": {"type": "document_missing_exception", "reason": "[3]: document missing", "index_uuid": "aAsFqTI0Tc2W0LCWgPNrOA", "shard": "0", "index": "logs"},
            }
        },
    ],
}

RESPONSE_B = {
    "took": 3,
    "errors": True,
    "items": [
        {"index": {"_index": "logs", "_id": "1", "status": 500, "error": {"type": "null_pointer_exception", "reason": None}}},
        {"index": {"_index": "logs", "_id": "2", "status": 500, "error": {"type": "illegal_state_exception", "reason": "boom"}}},
    ],
}


class FakeEs:
    def __init__(self, response):
        self.response = response
        self.raw = False

    def return_raw_response(self):
        self.raw = True

    async def bulk(self, **kwargs):
        if self.raw:
            return io.BytesIO(json.dumps(self.response).encode("utf-8"))
        return self.response


def expected_counts(response):
    """full parse, rally's own per-item rule (status > 299 or _shards.failed > 0)"""
    failed = 0
    for item in response["items"]:
        data = next(iter(item.values()))
        if data["status"] > 299 or data.get("_shards", {}).get("failed", 0) > 0:
            failed += 1
    return len(response["items"]) - failed, failed


async def main():
    problems = []
    for name, response in (("A (delete not_found + update document_missing, both 404)", RESPONSE_A), ("B (two 500s, one reason null)", RESPONSE_B)):
        ok, failed = expected_counts(response)
        for detailed in (False, True):
            path = "detailed_stats" if detailed else "simple_stats (fast path)"
            params = {
                "body": "\n".join(["{}"] * 2 * len(response["items"])),
                "action-metadata-present": True,
                "bulk-size": len(response["items"]),
                "unit": "docs",
                "detailed-results": detailed,
            }
            try:
                _, _, meta = await driver.execute_single(runner.BulkIndex(), FakeEs(response), params, on_error="continue")
            except Exception as e:  # pylint: disable=broad-except
                problems.append(
                    f"response {name}, {path}: EXPECTED success=False, success-count={ok}, error-count={failed} and an error description; "
                    f"OBSERVED the runner raises {type(e).__name__}: {e}"
                )
                continue
            print(f"response {name}, {path}: {meta}")
            if (meta["success"], meta["success-count"], meta["error-count"]) != (False, ok, failed):
                problems.append(f"response {name}, {path}: unexpected stats {meta}")

    if problems:
        for p in problems:
            print("VIOLATION:", p)
        sys.exit(1)
    print("OK")


if __name__ == "__main__":
    asyncio.run(main())
