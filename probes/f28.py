"""
C19 / f1: a request failure in the middle of a paginated search (search_after) or a paginated
composite aggregation leaves the cursor of the last *successful* page in the operation's body.
With the default `on-error=continue` the failed invocation is merely recorded as an error sample
and the task goes on; the parameter source hands out the very same body again, so the FIRST page of
the next iteration is requested with the previous iteration's cursor.

Everything below is real rally code (SearchParamSource, driver.execute_single, runner.Query and its
extractors); only the Elasticsearch client is faked (perform_request returns canned raw responses
or raises the client-side timeout that elasticsearch-py raises).

Run:  cd <checkout> && PYTHONPATH=<checkout> /venv/bin/python demo.py
"""
import asyncio
import copy
import io
import json
import sys

import elasticsearch

from esrally.driver import driver, runner
from esrally.track import params, track


class FakeEs:
    """Serves `script` in order: a dict is sent as raw JSON response, an exception is raised."""

    def __init__(self, script):
        self.script = list(script)
        self.sent_bodies = []

    def options(self, **kwargs):
        return self

    def return_raw_response(self):
        pass

    async def perform_request(self, *, method, path, params=None, body=None, headers=None):
        self.sent_bodies.append(copy.deepcopy(body))
        nxt = self.script.pop(0)
        if isinstance(nxt, Exception):
            raise nxt
        return io.BytesIO(json.dumps(nxt).encode("utf-8"))


def search_page(first_id, n, total):
    return {
        "took": 1,
        "timed_out": False,
        "hits": {
            "total": {"value": total, "relation": "eq"},
            "hits": [{"_id": str(i), "_source": {}, "sort": [i]} for i in range(first_id, first_id + n)],
        },
    }


def composite_page(keys, after):
    agg = {"buckets": [{"key": {"k": k}, "doc_count": 1} for k in keys]}
    if after is not None:
        agg["after_key"] = {"k": after}
    return {"took": 1, "timed_out": False, "hits": {"total": {"value": 6, "relation": "eq"}, "hits": []}, "aggregations": {"by_k": agg}}


async def run_task(op_type, op_params, script, iterations):
    """What the driver does for a task: same param source, one execute_single per iteration, on-error=continue."""
    source = params.SearchParamSource(track.Track(name="demo"), op_params, operation_name="demo-op")
    es = FakeEs(script)
    query = runner.Query()
    samples = []
    first_page_bodies = []
    for _ in range(iterations):
        p = source.params()
        p.update({"operation-type": op_type})  # driver.ScheduleHandle.params_with_operation_type
        first_page_index = len(es.sent_bodies)
        _, _, meta = await driver.execute_single(query, es, p, on_error="continue")
        samples.append(meta)
        first_page_bodies.append(es.sent_bodies[first_page_index])
    return samples, first_page_bodies


async def main():
    problems = []
    timeout = elasticsearch.ConnectionTimeout("Connection timed out")

    # ---- paginated-search (search_after): 6 hits, 2 per page, up to 3 pages ------------------------------------
    op = {
        "index": "logs",
        "pages": 3,
        "results-per-page": 2,
        "body": {"query": {"match_all": {}}, "sort": [{"id": "asc"}]},
    }
    script = [
        search_page(1, 2, 6),  # iteration 1, page 1 -> cursor [2]
        timeout,  # iteration 1, page 2 fails (client-side timeout)
        search_page(1, 2, 6),  # iteration 2, page 1
        search_page(3, 2, 6),
        search_page(5, 2, 6),
    ]
    samples, first_bodies = await run_task("paginated-search", op, script, iterations=2)
    print("paginated-search: iteration 1 sample:", samples[0])
    print("paginated-search: first page body of iteration 2:", first_bodies[1])
    if samples[0].get("success") is not False:
        problems.append("setup: iteration 1 was expected to be recorded as a failed sample")
    if "search_after" in first_bodies[1]:
        problems.append(
            "paginated-search: EXPECTED the first page of iteration 2 to be requested without a cursor "
            "(body as defined in the track); OBSERVED search_after=%r, the sort value of the last hit that "
            "iteration 1 fetched before its second page timed out" % (first_bodies[1]["search_after"],)
        )

    # ---- composite-agg: 3 pages of 2 buckets ----------------------------------------------------------------
    op = {
        "index": "logs",
        "pages": 3,
        "results-per-page": 2,
        "body": {"size": 0, "aggs": {"by_k": {"composite": {"sources": [{"k": {"terms": {"field": "k"}}}]}}}},
    }
    script = [
        composite_page(["a", "b"], "b"),  # iteration 1, page 1 -> after_key {"k": "b"}
        timeout,  # iteration 1, page 2 fails
        composite_page(["a", "b"], "b"),  # iteration 2
        composite_page(["c", "d"], "d"),
        composite_page(["e", "f"], "f"),
    ]
    samples, first_bodies = await run_task("composite-agg", op, script, iterations=2)
    composite = first_bodies[1]["aggs"]["by_k"]["composite"]
    print("composite-agg: iteration 1 sample:", samples[0])
    print("composite-agg: first page body of iteration 2:", first_bodies[1])
    if "after" in composite:
        problems.append(
            "composite-agg: EXPECTED the first page of iteration 2 to be requested without `after`; "
            "OBSERVED after=%r, the after_key of the last page iteration 1 fetched before it failed" % (composite["after"],)
        )

    if problems:
        print()
        for p in problems:
            print("VIOLATION:", p)
        sys.exit(1)
    print("OK: every iteration starts from the first page")


if __name__ == "__main__":
    asyncio.run(main())
