import sys, threading
from unittest import mock
from esrally.driver import driver
from esrally.track import track
w = driver.Worker.__new__(driver.Worker)
import logging
w.logger = logging.getLogger("x")
w.config = object()
w.worker_id = 0
w.client_contexts = {}
w.on_error="continue"; w.track=None; w.sample_queue_size=10
w.cancel = threading.Event(); w.complete = threading.Event()
w.executor_future=None; w.sampler=None; w.start_driving=False; w.wakeup_interval=1
w.pool = mock.Mock()
sent=[]; wake=[]
w.send = lambda a,m: sent.append(type(m).__name__)
w.wakeupAfter = lambda *a, **k: wake.append(a)
w.driver_actor="drv"
op = track.Operation("op", track.OperationType.Bulk.to_hyphenated_string(), params={})
tA = track.Task("A", op, completes_parent=True); tB = track.Task("B", op)
alloc = driver.Allocator([track.Parallel([tA, tB], clients=1)]).allocations
ca = driver.ClientAllocations(); ca.add(0, alloc[0])
w.client_allocations = ca
# worker finished A (index 1) and has been told to complete; now drive to index 2 (task B)
w.current_task_index = 1; w.next_task_index = 2
w.complete.set()
w.drive()
print("sent", sent, "wakeups", len(wake), "submitted", w.pool.submit.called, "index", w.current_task_index)
assert sent == ["JoinPointReached"] or wake or w.pool.submit.called, "worker stalled: nothing scheduled after skipping"
