"""
C18 / f1: a composite sub-request that legitimately issues NO HTTP request makes RequestTiming crash
(`None - None`) instead of being skipped; the whole logical request (and the task) is lost.

docs/track.rst (get-async-search / delete-async-search): "Async searches that have already completed within
``wait_for_completion_timeout`` are skipped automatically." -- the documented example uses
wait_for_completion_timeout 100ms/200ms. When Elasticsearch answers the submit within that timeout it returns
the result without an ``id``; get-async-search / delete-async-search then skip the search and send nothing.

Everything is real (AsyncExecutor, schedule, Composite, RequestTiming, RallyAsyncElasticsearch, aiohttp tracing);
only the wire is replaced by rally's own "static_responses" client option.
"""
import asyncio
import json
import logging
import os
import sys
import tempfile
import threading
import time

from esrally import track
from esrally.client import EsClientFactory
from esrally.driver import driver, runner

# what Elasticsearch returns for POST /<index>/_async_search when the search finishes within
# wait_for_completion_timeout (and keep_on_completion is false): a complete response and *no* "id".
SUBMIT_RESPONSE = {
    "is_partial": False,
    "is_running": False,
    "response": {"took": 3, "timed_out": False, "hits": {"total": {"value": 7, "relation": "eq"}, "hits": []}},
}


def composite_params():
    # this is the example from docs/track.rst ("delete-async-search"), reduced to one search
    return {
        "name": "async-search-page",
        "operation-type": "composite",
        "requests": [
            {
                "stream": [
                    {
                        "operation-type": "submit-async-search",
                        "name": "search-1",
                        "index": "logs",
                        "body": {"query": {"match_all": {}}},
                        "request-params": {"wait_for_completion_timeout": "100ms"},
                    }
                ]
            },
            {"operation-type": "get-async-search", "name": "get-results", "retrieve-results-for": ["search-1"]},
            {"operation-type": "delete-async-search", "name": "delete-results", "delete-results-for": ["search-1"]},
        ],
    }


async def main():
    logging.disable(logging.CRITICAL)  # keep the output readable; the error is reported below
    tmp = tempfile.mkdtemp()
    responses = os.path.join(tmp, "responses.json")
    with open(responses, "w", encoding="utf-8") as f:
        json.dump([{"path": "*/_async_search", "body": SUBMIT_RESPONSE}, {"path": "*", "body": {}}], f)

    runner.register_default_runners()
    es = EsClientFactory(
        [{"host": "127.0.0.1", "port": 9200}], {"static_responses": responses}, distribution_version="8.12.0"
    ).create_async(client_id=0)

    test_track = track.Track(name="unittest", description="unittest track", indices=None, challenges=None)
    task = track.Task(
        "async-search-page",
        track.Operation("async-search-page", "composite", params=composite_params()),
        iterations=2,
        clients=1,
    )
    param_source = track.operation_parameters(test_track, task)
    allocation = driver.TaskAllocation(task=task, client_index_in_task=0, global_client_index=0, total_clients=1)
    schedule = driver.schedule_for(allocation, param_source)
    sampler = driver.Sampler(start_timestamp=time.perf_counter())
    executor = driver.AsyncExecutor(
        client_id=0,
        task=task,
        schedule=schedule,
        es={"default": es},
        sampler=sampler,
        cancel=threading.Event(),
        complete=threading.Event(),
        on_error="continue",
    )
    error = None
    try:
        await executor()
    except BaseException as e:  # pylint: disable=broad-except
        error = e
    finally:
        await es.close()

    samples = sampler.samples
    print("EXPECTED: 2 samples for the composite; each spans the submit request; the skipped get/delete sub-requests")
    print("          (no HTTP request sent, as documented) contribute no timing of their own.")
    if error is not None:
        print(f"OBSERVED: the task died with: {error!r}; {len(samples)} sample(s) recorded")
        return 1
    if len(samples) != 2:
        print(f"OBSERVED: {len(samples)} samples")
        return 1
    for s in samples:
        deps = list(s.dependent_timings)
        names = [d.operation_name for d in deps]
        if s.service_time is None or s.service_time < 0 or any(d.service_time is None for d in deps):
            print(f"OBSERVED: bad timings: service_time={s.service_time}, dependents={names}")
            return 1
        if "search-1" not in names:
            print(f"OBSERVED: sub-request timing for search-1 is missing: {names}")
            return 1
    print("OBSERVED: as expected")
    return 0


if __name__ == "__main__":
    sys.exit(asyncio.run(main()))
