"""
C03 / f3: with a fractional ingest-percentage a client group sends one bulk MORE than ceil(p% of its bulks), because
PartitionBulkIndexParamSource._init_internal_params computes ceil() on a binary floating point product
(all_bulks * p) / 100 that is a hair above an exact integer.

Example: 1500 bulks, "ingest-percentage": 2.2  ->  exactly 33 bulks (1500 * 2.2 / 100 == 33), Rally sends 34.

Real rally code: BulkIndexParamSource / PartitionBulkIndexParamSource, readers, offset table preparation; nothing is faked.
"""
import logging
import math
import os
import shutil
import sys
import tempfile
from fractions import Fraction

from esrally.track import params, track
from esrally.utils import console, io

# (documents in file, bulk-size, clients of the task, co-located clients of the observed worker, ingest-percentage as in track.json)
CASES = [
    (1500, 1, 1, [0], "2.2"),
    (3000, 1, 1, [0], "1.1"),
    (12500, 5, 1, [0], "0.28"),
    (6000, 1, 4, [0, 1], "1.1"),  # worker with clients 0 and 1 of 4 -> 3000 bulks in its share
]


def main():
    logging.disable(logging.CRITICAL)
    console.init(quiet=True)
    tmp = tempfile.mkdtemp()
    failed = 0
    try:
        for num_docs, bulk_size, clients, group, percentage in CASES:
            data_file = os.path.join(tmp, f"docs-{num_docs}.json")
            with open(data_file, "wt", encoding="utf-8") as f:
                for i in range(num_docs):
                    f.write('{"n": %d}\n' % i)
            assert io.prepare_file_offset_table(data_file) == num_docs
            corpus = track.DocumentCorpus(
                "c", [track.Documents(source_format="bulk", document_file=data_file, number_of_documents=num_docs, target_index="idx")]
            )
            t = track.Track(name="demo", corpora=[corpus])
            # the value arrives as a JSON number, i.e. a Python float
            source = params.BulkIndexParamSource(t, {"bulk-size": bulk_size, "ingest-percentage": float(percentage)})
            handles = [source.partition(c, clients) for c in group]

            all_bulks = params.number_of_bulks([corpus], group[0], group[-1], clients, bulk_size)
            expected = math.ceil(Fraction(all_bulks) * Fraction(percentage) / 100)

            sent = 0
            active = list(handles)
            while active:
                for h in list(active):
                    try:
                        h.params()
                        sent += 1
                    except StopIteration:
                        active.remove(h)
            verdict = "ok" if sent == expected else "VIOLATION"
            print(
                f"{verdict}: group {group} of {clients} clients has {all_bulks} bulks, ingest-percentage {percentage}: "
                f"expected ceil({all_bulks} * {percentage} / 100) = {expected} bulks, observed {sent} bulks"
            )
            if sent != expected:
                failed += 1
        if failed:
            print(
                f"\nEXPECTED: each group stops after the first ceil(p%) of its bulks.\n"
                f"OBSERVED: in {failed} of {len(CASES)} configurations the group sends one bulk (bulk-size documents) more."
            )
            return 1
        print("OK")
        return 0
    finally:
        shutil.rmtree(tmp, ignore_errors=True)


if __name__ == "__main__":
    sys.exit(main())
