"""
C13 / F1: variables of an Elasticsearch plugin (plugin config .ini or --plugin-params) override
Rally's own node variables (network_host, http_port, node_name, data_paths, ...) when the *car's*
config templates are rendered.

Everything below is real rally code: team.load_car, team.load_plugins, ElasticsearchInstaller,
PluginInstaller, BareProvisioner.prepare (incl. io.decompress of a real tar.gz, _apply_config and
Jinja rendering) and provisioner.cleanup. The only stand-in is the "elasticsearch-plugin" binary in
the fake distribution archive, which is a shell script that exits with 0.
"""
import os
import shutil
import stat
import sys
import tarfile
import tempfile

from esrally.mechanic import provisioner, team
from esrally.utils import opts


def write(root, rel, content, executable=False):
    p = os.path.join(root, rel)
    os.makedirs(os.path.dirname(p), exist_ok=True)
    with open(p, "w", encoding="utf-8") as f:
        f.write(content)
    if executable:
        os.chmod(p, os.stat(p).st_mode | stat.S_IXUSR | stat.S_IXGRP | stat.S_IXOTH)
    return p


def main():
    tmp = tempfile.mkdtemp(prefix="c13-f1-")
    try:
        return run(tmp)
    finally:
        shutil.rmtree(tmp, ignore_errors=True)


def run(tmp):
    team_dir = os.path.join(tmp, "team")

    # --- a minimal but legal team directory (layout as in docs/car.rst and docs/elasticsearch_plugins.rst)
    write(team_dir, "cars/v1/defaults.ini", "[meta]\ndescription=defaults\ntype=car\n\n[config]\nbase=vanilla\n\n[variables]\nheap_size=1g\n")
    write(team_dir, "cars/v1/vanilla/config.ini", "[variables]\nruntime.jdk=17\nruntime.jdk.bundled=true\n")
    write(
        team_dir,
        "cars/v1/vanilla/templates/config/elasticsearch.yml",
        "cluster.name: {{cluster_name}}\n"
        "node.name: {{node_name}}\n"
        "network.host: {{network_host}}\n"
        "http.port: {{http_port}}\n"
        "transport.port: {{transport_port}}\n"
        "path.data: {{data_paths|join(',')}}\n"
        "path.logs: {{log_path}}\n",
    )
    # plugin "myplugin" with one configuration "simple" (exactly the example of docs/elasticsearch_plugins.rst)
    write(team_dir, "plugins/v1/myplugin/default/templates/config/elasticsearch.yml", "myplugin.mode: {{my_plugin_mode}}\n")
    write(team_dir, "plugins/v1/myplugin/simple.ini", "[config]\nbase=default\n\n[variables]\nmy_plugin_mode=simple\n")

    # --- a tiny "distribution"
    dist_src = os.path.join(tmp, "dist-src")
    write(dist_src, "elasticsearch-9.9.9/config/elasticsearch.yml", "# pre-bundled\n")
    write(dist_src, "elasticsearch-9.9.9/bin/elasticsearch-plugin", "#!/bin/sh\nexit 0\n", executable=True)
    dist = os.path.join(tmp, "elasticsearch-9.9.9.tar.gz")
    with tarfile.open(dist, "w:gz") as t:
        t.add(os.path.join(dist_src, "elasticsearch-9.9.9"), arcname="elasticsearch-9.9.9")

    # --- what the user typed
    #   esrally race ... --car=defaults --elasticsearch-plugins=myplugin:simple \
    #        --plugin-params="http_port:19200,network_host:'0.0.0.0',node_name:'from-plugin'"
    # and Rally was told (target hosts / node name prefix) to run the node as rally-node-0 on 127.0.0.1:39200
    plugin_params = opts.to_dict("http_port:19200,network_host:'0.0.0.0',node_name:'from-plugin'")
    car = team.load_car(team_dir, opts.csv_to_list("defaults"), opts.to_dict("{}"))
    plugins = team.load_plugins(team_dir, opts.csv_to_list("myplugin:simple"), plugin_params)

    node_root = os.path.join(tmp, "races", "r1", "rally-node-0")
    es_installer = provisioner.ElasticsearchInstaller(
        car=car,
        java_home=None,
        node_name="rally-node-0",
        cluster_name="rally-benchmark",
        node_root_dir=node_root,
        all_node_ips=["127.0.0.1"],
        all_node_names=["rally-node-0"],
        ip="127.0.0.1",
        http_port=39200,
    )
    p = provisioner.BareProvisioner(es_installer, [provisioner.PluginInstaller(pl, java_home=None) for pl in plugins], distribution_version="9.9.9")
    node_config = p.prepare({"elasticsearch": dist})

    with open(os.path.join(node_config.binary_path, "config", "elasticsearch.yml"), encoding="utf-8") as f:
        rendered = f.read()
    print("----- rendered config/elasticsearch.yml -----")
    print(rendered)

    settings = dict(line.split(": ", 1) for line in rendered.splitlines() if ": " in line)
    expected = {
        "node.name": "rally-node-0",
        "network.host": "127.0.0.1",
        "http.port": "39200",
    }
    problems = []
    for k, v in expected.items():
        if settings.get(k) != v:
            problems.append(f"  {k}: expected Rally's own value [{v}] but the car template was rendered with [{settings.get(k)}]")

    if problems:
        print("VIOLATION (C13: Rally's own node variables cannot be overridden):")
        print("\n".join(problems))
        print(f"  (Rally itself keeps using {node_config.ip}:39200 / {node_config.node_name}, e.g. to wait for the node and to attach telemetry)")
        return 1
    print("OK: Rally's own node variables win over plugin variables.")
    return 0


if __name__ == "__main__":
    sys.exit(main())
