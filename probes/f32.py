"""
C20 / f3: a race whose per-task results lack a key that older Rally versions did not store cannot be
compared at all: the comparison aborts with a bare KeyError ("Cannot compare. 'mean'.") instead of
listing the metrics that ARE present in both races.

  * Rally <= 2.0.3 stored task throughput as {min, median, max, unit}; "mean" was only added in 2.0.4
    (CHANGELOG #1146 / #1160).  ComparisonReporter._report_throughput indexes ["mean"] unconditionally.
  * per-task "processing_time" is newer than "latency"/"service_time" (it is absent from race.json files
    written before it was introduced, and GlobalStats.as_flat_list() treats it as optional); with the
    documented setting reporting/output.processingtime=true,
    ComparisonReporter._report_processing_time indexes ["processing_time"] unconditionally.

GlobalStats.tasks()/metrics() explicitly keep race.json files "before Rally 0.8.0" readable and
GlobalStats.as_flat_list() guards every per-task key with `if "..." in item`, so old files are meant to
be supported; race.json files stay in ~/.rally/benchmarks/races (or the ES race store) across upgrades.

Runs the real esrally code end to end (FileRaceStore + reporter.compare()); only stdout is captured.

run: cd <checkout> && PYTHONPATH=<checkout> /venv/bin/python demo.py
"""
import contextlib
import csv
import datetime
import io
import os
import re
import sys
import tempfile

from esrally import config, metrics, reporter, track
from esrally.utils import console

COLOURS = {"31": "red", "32": "green", "39": "neutral"}
CELL = re.compile(r"^\x1b\[(\d+);1m(.*)\x1b\[0m$")


def make_cfg(root, report_format="csv", show_processing_time=False):
    cfg = config.Config()
    cfg.add(config.Scope.application, "system", "env.name", "demo")
    cfg.add(config.Scope.application, "node", "root.dir", root)
    cfg.add(config.Scope.application, "node", "rally.cwd", root)
    cfg.add(config.Scope.application, "reporting", "datastore.type", "in-memory")
    cfg.add(config.Scope.application, "reporting", "format", report_format)
    cfg.add(config.Scope.application, "reporting", "output.path", "")
    cfg.add(config.Scope.application, "reporting", "numbers.align", "decimal")
    if show_processing_time:
        # documented in docs/configuration.rst, section [reporting]
        cfg.add(config.Scope.application, "reporting", "output.processingtime", "true")
    return cfg


def store_race(cfg, race_id, results, rally_version="2.12.0"):
    """persists a race exactly as `esrally race` does (Race.as_dict -> race.json)"""
    cfg.add(config.Scope.application, "system", "race.id", race_id)
    race = metrics.Race(
        rally_version=rally_version,
        rally_revision=None,
        environment_name="demo",
        race_id=race_id,
        race_timestamp=datetime.datetime(2024, 1, 1, 12, 0, 0),
        pipeline="benchmark-only",
        user_tags={},
        track=track.Track(name="demo-track"),
        track_params=None,
        challenge=track.Challenge(name="demo-challenge"),
        car="external",
        car_params=None,
        plugin_params=None,
    )
    race.add_results(metrics.GlobalStats(results))
    metrics.FileRaceStore(cfg).store_race(race)


def compare(cfg, baseline_id, contender_id):
    """returns {metric: (diff_text, diff_colour, pct_text, pct_colour)} parsed from the console output"""
    out = io.StringIO()
    with contextlib.redirect_stdout(out):
        reporter.compare(cfg, baseline_id, contender_id)
    text = out.getvalue()
    table = text[text.index("Metric,Task,Baseline,Contender,Diff,Unit,Diff %") :]
    rows = {}
    for row in list(csv.reader(io.StringIO(table)))[1:]:
        if len(row) != 7:
            continue
        d, p = CELL.match(row[4]), CELL.match(row[6])
        rows[row[0]] = (d.group(2), COLOURS[d.group(1)], p.group(2), COLOURS[p.group(1)], row[2], row[3])
    return rows


def task(with_mean=True, with_processing_time=True, factor=1.0):
    t = {
        "task": "index-append",
        "operation": "bulk",
        "throughput": {"min": 1000.0 * factor, "median": 1100.0 * factor, "max": 1200.0 * factor, "unit": "docs/s"},
        "latency": {"50_0": 10.0 * factor, "100_0": 20.0 * factor, "mean": 11.0 * factor, "unit": "ms"},
        "service_time": {"50_0": 9.0 * factor, "100_0": 19.0 * factor, "mean": 10.0 * factor, "unit": "ms"},
        "error_rate": 0.0,
    }
    if with_mean:
        t["throughput"]["mean"] = 1100.0 * factor
    if with_processing_time:
        t["processing_time"] = {"50_0": 9.5 * factor, "100_0": 19.5 * factor, "mean": 10.5 * factor, "unit": "ms"}
    return t


def attempt(title, cfg, baseline, contender, expected_metrics):
    print(title)
    try:
        rows = compare(cfg, baseline, contender)
    except Exception as e:  # pylint: disable=broad-except
        print(f"  observed: comparison aborted with {type(e).__name__}: {e}")
        return f"{title}: expected lines for {expected_metrics} (present in both races), observed {type(e).__name__}: {e}"
    missing = [m for m in expected_metrics if m not in rows]
    for name, (d, dc, p, pc, b, c) in rows.items():
        print(f"  {name:35s} baseline={b:>8s} contender={c:>8s} Diff={d:>12s} [{dc:7s}]  Diff %={p:>9s} [{pc:7s}]")
    if missing:
        return f"{title}: lines missing for {missing}"
    return None


def main():
    console.init(quiet=False, assume_tty=True)  # what esrally's main() does; colours on
    if console.format is not console.RichFormat:
        print("this demo needs a colour capable TERM (TERM must not be 'dumb')")
        return 2
    root = tempfile.mkdtemp(prefix="c20-f3-")
    cfg = make_cfg(root)
    store_race(cfg, "race-2.0.3", {"op_metrics": [task(with_mean=False)]}, rally_version="2.0.3")
    store_race(cfg, "race-old-no-proc", {"op_metrics": [task(with_processing_time=False)]})
    store_race(cfg, "race-new", {"op_metrics": [task(factor=1.1)]})

    common_metrics = ["Min Throughput", "Median Throughput", "Max Throughput", "50th percentile latency", "100th percentile service time", "error rate"]
    problems = []
    problems.append(attempt("A) baseline stored by Rally 2.0.3 (throughput without 'mean') vs current race", cfg, "race-2.0.3", "race-new", common_metrics))
    problems.append(attempt("B) the same two races swapped", cfg, "race-new", "race-2.0.3", common_metrics))
    cfg_pt = make_cfg(root, show_processing_time=True)
    problems.append(
        attempt("C) reporting/output.processingtime=true, baseline without per-task 'processing_time'", cfg_pt, "race-old-no-proc", "race-new", common_metrics + ["Mean Throughput"])
    )
    # control: the races themselves are fine - the same comparison works as soon as the missing sub-metric is not touched
    control = attempt("control) processing_time-less race vs current race, default settings", cfg, "race-old-no-proc", "race-new", common_metrics + ["Mean Throughput"])
    if control:
        print("unexpected: control comparison failed: " + control)
        return 2

    problems = [p for p in problems if p]
    if problems:
        print("\nFAIL - C20 violated (metrics present in both races are not listed; the comparison crashes on an absent sub-metric):")
        for p in problems:
            print("  * " + p)
        return 1
    print("\nOK - metrics present in both races are listed, the absent ones are skipped")
    return 0


if __name__ == "__main__":
    sys.exit(main())
