# F9b (known finding, C19): the search_after cursor is found with rfind('"sort"') on the raw text, which ignores nesting.
import io, json
from esrally.driver import runner
doc = {"took": 1, "timed_out": False, "hits": {"total": {"value": 1, "relation": "eq"}, "hits": [
    {"_id": "1", "sort": [20], "inner_hits": {"c": {"hits": {"hits": [{"_id": "n", "sort": [999]}]}}}}]}}
_, last = runner.SearchAfterExtractor()(io.BytesIO(json.dumps(doc).encode()), False, None)
print("cursor:", last, "expected:", doc["hits"]["hits"][-1]["sort"])
doc2 = {"took": 1, "timed_out": False, "hits": {"total": {"value": 1, "relation": "eq"}, "hits": [{"_id": "1", "sort": [20], "matched_queries": ["sort"]}]}}
_, last2 = runner.SearchAfterExtractor()(io.BytesIO(json.dumps(doc2).encode()), False, None)
print("cursor:", last2, "expected:", [20])
assert last == [20] and last2 == [20], "cursor is not the sort value of the last hit"
