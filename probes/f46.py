"""
C03 / f4: with id conflicts enabled, a client sends conflicting ids (on-conflict actions) for ids that it has never emitted
itself: they were emitted by ANOTHER co-located client whose bulk request may still be in flight (or not even sent yet).

All clients that live in the same worker process share one PartitionBulkIndexParamSource, hence one reader and one
GenerateActionMetaData per file. "ids already emitted" (id_up_to) is tracked per reader, not per client, so the bulk handed to
client B picks its conflicting ids from the bulk that was handed to client A a moment ago. With "on-conflict": "update" this
produces update actions for documents that do not exist yet whenever B's request overtakes A's.

Real rally code: Allocator, calculate_worker_assignments, ClientAllocations, AsyncIoAdapter.run, AsyncExecutor, ScheduleHandle,
BulkIndexParamSource, readers, GenerateActionMetaData, bulk runner. Fake: the Elasticsearch client (a tiny in-memory document
store with a per-connection latency; client 0's connection is slower than client 1's).
"""
import asyncio
import io as pyio
import json
import logging
import os
import random
import shutil
import sys
import tempfile
import threading
from unittest import mock

from esrally import config
from esrally.client.context import RequestContextHolder
from esrally.driver import driver, runner
from esrally.track import track
from esrally.utils import console, io

NUM_DOCS = 4000
CLIENTS = 2
CORES = 1  # one worker simulates both clients
BULK_SIZE = 100

store = set()  # ids that "Elasticsearch" has indexed so far
emitted_by = {}  # id -> client that sent the (non-conflicting) index action for it
foreign_references = []  # (client, id, owner)
missing_document_errors = []  # (client, id)


class TinyEs(RequestContextHolder):
    def __init__(self, client_id):
        self.client_id = client_id
        self.own_ids = set()

    async def bulk(self, body=None, params=None, **kwargs):
        self.on_request_start()
        lines = body.split(b"\n")[:-1]
        actions = [json.loads(l) for l in lines[0::2]]
        # what does this request refer to?
        for a in actions:
            (op, meta), = a.items()
            doc_id = meta["_id"]
            if op == "index" and doc_id not in emitted_by:
                emitted_by[doc_id] = self.client_id
                self.own_ids.add(doc_id)
            elif doc_id not in self.own_ids:
                foreign_references.append((self.client_id, doc_id, emitted_by.get(doc_id)))
        # network + queueing: client 0 sits on a slower connection than client 1
        await asyncio.sleep(0.02 if self.client_id == 0 else 0.001)
        # now Elasticsearch processes the request
        errors = False
        items = []
        for a in actions:
            (op, meta), = a.items()
            doc_id = meta["_id"]
            if op == "update" and doc_id not in store:
                errors = True
                missing_document_errors.append((self.client_id, doc_id))
                items.append({"update": {"_id": doc_id, "status": 404, "error": {"type": "document_missing_exception", "reason": "missing"}}})
            else:
                store.add(doc_id)
                items.append({op: {"_id": doc_id, "status": 200}})
        self.on_request_end()
        return pyio.BytesIO(json.dumps({"took": 1, "errors": errors, "items": items}).encode())

    async def close(self):
        pass


class FakeFactory:
    def __init__(self, hosts, client_options, distribution_version=None, distribution_flavor=None):
        pass

    def create_async(self, api_key=None, client_id=None):
        return TinyEs(client_id)


def main():
    logging.disable(logging.CRITICAL)
    console.init(quiet=True)
    random.seed(42)
    tmp = tempfile.mkdtemp()
    try:
        data_file = os.path.join(tmp, "docs.json")
        with open(data_file, "wt", encoding="utf-8") as f:
            for i in range(NUM_DOCS):
                f.write('{"n": %d}\n' % i)
        assert io.prepare_file_offset_table(data_file) == NUM_DOCS

        corpus = track.DocumentCorpus(
            "c", [track.Documents(source_format="bulk", document_file=data_file, number_of_documents=NUM_DOCS, target_index="idx")]
        )
        op = track.Operation(
            "bulk-update",
            track.OperationType.Bulk.to_hyphenated_string(),
            params={"bulk-size": BULK_SIZE, "conflicts": "sequential", "conflict-probability": 25, "on-conflict": "update", "recency": 0.9},
        )
        task = track.Task("bulk-update", op, clients=CLIENTS)
        challenge = track.Challenge("default", default=True, schedule=[task])
        t = track.Track(name="demo", indices=[track.Index("idx")], corpora=[corpus], challenges=[challenge])

        cfg = config.Config()
        cfg.add(config.Scope.application, "driver", "profiling", False)
        cfg.add(config.Scope.application, "driver", "assertions", False)
        hosts = mock.Mock()
        hosts.all_hosts = {"default": [{"host": "localhost", "port": 9200}]}
        cfg.add(config.Scope.application, "client", "hosts", hosts)
        cfg.add(config.Scope.application, "client", "options", mock.MagicMock())
        runner.register_default_runners()

        allocations = driver.Allocator(challenge.schedule).allocations
        assignments = driver.calculate_worker_assignments([{"host": "localhost", "cores": CORES}], CLIENTS)
        client_contexts = {c: mock.Mock(api_key=None) for c in range(CLIENTS)}

        with mock.patch("esrally.client.EsClientFactory", FakeFactory):
            for worker_id, clients in enumerate(assignments[0]["workers"]):
                ca = driver.ClientAllocations()
                for c in clients:
                    ca.add(c, allocations[c])
                sampler = driver.Sampler(start_timestamp=0)
                adapter = driver.AsyncIoAdapter(
                    cfg, t, ca.tasks(1), sampler, threading.Event(), threading.Event(), "continue", client_contexts, worker_id
                )
                asyncio.run(adapter.run())

        print(f"bulk task finished: {len(store)} distinct ids indexed (corpus has {NUM_DOCS} documents)")
        if foreign_references or missing_document_errors:
            c, i, o = foreign_references[0]
            print(
                f"\nEXPECTED: every conflicting id that a client sends refers to an id that the same client has emitted before, so an\n"
                f"          'update' can never hit a document that does not exist yet.\n"
                f"OBSERVED: {len(foreign_references)} conflicting ids refer to ids emitted by the other co-located client "
                f"(first: client {c} -> id {i} emitted by client {o});\n"
                f"          {len(missing_document_errors)} update actions failed with document_missing_exception because the other "
                f"client's bulk was still in flight."
            )
            return 1
        print("OK: all conflicting ids refer to ids of the same client")
        return 0
    finally:
        shutil.rmtree(tmp, ignore_errors=True)


if __name__ == "__main__":
    sys.exit(main())
