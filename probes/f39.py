"""
C18 / f2: the end recorded for a request that fails *while its body is being received* (client-side request timeout,
dropped connection) is the moment the response HEADERS arrived and not the moment the request ended.

Elasticsearch streams large responses (chunked transfer encoding): status line and headers are sent as soon as the first
chunk is ready. If the rest of the body stalls and the client's request timeout fires, the HTTP request has lasted
`request-timeout` seconds, yet rally records a service time of ~1 ms for the failed sample (default on-error=continue).

Everything is real rally code (AsyncExecutor, schedule, Query runner, RallyAsyncElasticsearch, RallyAiohttpHttpNode, the
aiohttp trace callbacks registered by EsClientFactory.create_async); "Elasticsearch" is a 20-line HTTP/1.1 server on a
loopback socket that sends the headers and the first chunk of a search response and then stalls.
"""
import asyncio
import logging
import sys
import threading
import time

from esrally import track
from esrally.client import EsClientFactory
from esrally.driver import driver, runner

REQUEST_TIMEOUT = 0.5


async def stalling_elasticsearch(reader, writer):
    try:
        head = b""
        while b"\r\n\r\n" not in head:
            chunk = await reader.read(65536)
            if not chunk:
                return
            head += chunk
        writer.write(
            b"HTTP/1.1 200 OK\r\n"
            b"X-elastic-product: Elasticsearch\r\n"
            b"content-type: application/json\r\n"
            b"transfer-encoding: chunked\r\n\r\n"
        )
        first = b'{"took":5,"timed_out":false,"hits":{"total":{"value":10000,"relation":"gte"},"hits":['
        writer.write(b"%x\r\n%s\r\n" % (len(first), first))
        await writer.drain()
        # ... and the remaining chunks never arrive; wait until the client gives up and closes the connection
        await reader.read()
    except (ConnectionError, asyncio.CancelledError):
        pass
    finally:
        writer.close()


async def main():
    logging.disable(logging.CRITICAL)
    server = await asyncio.start_server(stalling_elasticsearch, "127.0.0.1", 0)
    port = server.sockets[0].getsockname()[1]

    runner.register_default_runners()
    es = EsClientFactory([{"host": "127.0.0.1", "port": port}], {}, distribution_version="8.12.0").create_async(client_id=0)

    test_track = track.Track(name="unittest", description="unittest track", indices=None, challenges=None)
    op_params = {
        "name": "big-search",
        "operation-type": "search",
        "index": "logs",
        "body": {"query": {"match_all": {}}, "size": 10000},
        "request-timeout": REQUEST_TIMEOUT,
        "cache": None,
    }
    task = track.Task("big-search", track.Operation("big-search", "search", params=op_params, param_source=None), iterations=1, clients=1)

    class OneShot:
        # minimal parameter source (the stock search param source needs a full track with indices)
        def __init__(self, *args, **kwargs):
            self.infinite = False
            self.task_progress_control = None

        def partition(self, *args):
            return self

        def params(self):
            return dict(op_params)

        @property
        def percent_completed(self):
            return None

    allocation = driver.TaskAllocation(task=task, client_index_in_task=0, global_client_index=0, total_clients=1)
    schedule = driver.schedule_for(allocation, OneShot())
    sampler = driver.Sampler(start_timestamp=time.perf_counter())
    executor = driver.AsyncExecutor(
        client_id=0,
        task=task,
        schedule=schedule,
        es={"default": es},
        sampler=sampler,
        cancel=threading.Event(),
        complete=threading.Event(),
        on_error="continue",
    )
    wall_start = time.perf_counter()
    try:
        await executor()
    finally:
        wall = time.perf_counter() - wall_start
        await es.close()
        server.close()
        await server.wait_closed()

    samples = sampler.samples
    assert len(samples) == 1, samples
    s = samples[0]
    print(f"request meta data    : {s.request_meta_data}")
    print(f"wall clock for the op: {wall:.3f}s (request-timeout is {REQUEST_TIMEOUT}s)")
    print(f"EXPECTED: the one HTTP request issued for this search ended when it timed out, i.e. service_time ~= {REQUEST_TIMEOUT}s")
    print(f"OBSERVED: service_time = {s.service_time:.6f}s, processing_time = {s.processing_time:.3f}s")
    if s.request_meta_data.get("success") is not False:
        print("unexpected: the request did not fail")
        return 2
    if s.service_time < 0.8 * REQUEST_TIMEOUT:
        print("VIOLATION: the recorded end is the arrival of the response headers, not the end of the (failed) HTTP request")
        return 1
    print("as expected")
    return 0


if __name__ == "__main__":
    sys.exit(asyncio.run(main()))
