"""
C09 / F2: a failure of the node-level metrics store in mechanic.NodeMechanicActor is sent to the actor itself in an endless
loop and never reaches race control: the race is reported as SUCCESS and final results are stored.

Runs the real `esrally race --pipeline=from-distribution` (real race control, real actor system with real processes, real
MechanicActor / Dispatcher / NodeMechanicActor / Mechanic, real driver and load generators, static responses).
Faked, because there are no Elasticsearch binaries and no network here: the supplier / provisioner / launcher handed to the real
`Mechanic` (no-ops) and the team repository lookup. Injected fault: the first periodic flush (every 30 s, real interval) of the
node's metrics store raises a RallyError, which is what EsMetricsStore.flush does e.g. on an unretryable bulk error, an expired
API key or an outage that outlasts its retries ("the metrics store fails while samples are stored").

expected: race control gets a BenchmarkFailure in bounded time, `esrally race` ends with FAILURE, no final results are stored.
observed: the BenchmarkFailure is addressed to the NodeMechanicActor itself, which "forwards" it to itself again and again
          (100% CPU on the benchmarked host for the rest of the race); the race ends with SUCCESS and results are stored.

Run: cd <checkout> && PYTHONPATH=<checkout> /venv/bin/python demo.py
"""
import glob
import json
import os
import re
import shutil
import subprocess
import sys
import tempfile
import threading
import time
import uuid

import psutil

CHILD = r"""
import os, sys
from esrally import actor, rally, config, exceptions
from esrally.utils import process
from esrally.mechanic import mechanic

# isolation from other users of this machine: Rally's own process-local actor system base, no global process check
actor.use_offline_actor_system()
actor.actor_system_already_running = lambda ip="127.0.0.1": False
process.find_all_other_rally_processes = lambda: []

# no Elasticsearch binaries, no network: no-op supplier / provisioner / launcher for the real Mechanic, no team repository
def load_team(cfg, external):
    cfg.add(config.Scope.applicationOverride, "mechanic", "repository.revision", "n/a")
    return None, []

class Launcher:
    def start(self, node_configs):
        return []
    def stop(self, nodes, metrics_store):
        pass

def create(cfg, metrics_store, *args, **kwargs):
    # fault injection: the first periodic flush of the node's metrics store fails
    orig, state = metrics_store.flush, {"n": 0}
    def flush(refresh=True):
        state["n"] += 1
        if state["n"] == 1:
            raise exceptions.RallyError("injected: the metrics store failed while node-level samples were stored")
        return orig(refresh=refresh)
    metrics_store.flush = flush
    return mechanic.Mechanic(cfg, metrics_store, lambda: None, [], Launcher())

mechanic.load_team = load_team
mechanic.create = create

sys.argv = ["esrally"] + sys.argv[1:]
rally.main()
"""

TRACK = {
    "version": 2,
    "description": "C09 F2: 45 seconds of work",
    "schedule": [{"operation": {"name": "work", "operation-type": "sleep", "duration": 1}, "clients": 1, "iterations": 45}],
}


def marked(marker):
    for p in psutil.process_iter():
        try:
            if p.environ().get("C09_MARKER") == marker:
                yield p
        except (psutil.NoSuchProcess, psutil.AccessDenied, psutil.ZombieProcess):
            pass


def main():
    work = tempfile.mkdtemp(prefix="c09f2")
    marker = uuid.uuid4().hex
    samples = {}  # pid -> [(wall clock, cpu seconds)]
    stop = threading.Event()

    def sampler():
        while not stop.is_set():
            for p in marked(marker):
                try:
                    t = p.cpu_times()
                    samples.setdefault(p.pid, []).append((time.time(), t.user + t.system))
                except psutil.NoSuchProcess:
                    pass
            stop.wait(1)

    try:
        track = os.path.join(work, "c09f2track")
        os.makedirs(track)
        with open(os.path.join(track, "track.json"), "w") as f:
            json.dump(TRACK, f)
        responses = os.path.join(work, "responses.json")
        with open(responses, "w") as f:
            f.write('[{"path": "*", "body": {}}]')
        env = dict(os.environ, RALLY_HOME=work, C09_MARKER=marker, PYTHONPATH=os.getcwd())
        args = [sys.executable, "-c", CHILD, "race", f"--track-path={track}", "--pipeline=from-distribution", "--distribution-version=8.0.0",
                f"--client-options=static_responses:'{responses}'", "--offline"]
        threading.Thread(target=sampler, daemon=True).start()
        p = subprocess.Popen(args, env=env, stdout=subprocess.PIPE, stderr=subprocess.STDOUT, text=True)
        try:
            out, _ = p.communicate(timeout=300)
        except subprocess.TimeoutExpired:
            out = "TIMEOUT"
        stop.set()
        outcome = "SUCCESS" if "SUCCESS" in out else "FAILURE" if "FAILURE" in out else f"? (exit code {p.returncode})\n{out}"
        results_stored = any("results" in json.load(open(f)) for f in glob.glob(work + "/.rally/benchmarks/races/*/race.json"))
        log = open(os.path.join(work, ".rally", "logs", "rally.log")).read()
        m = re.search(r"^(\S+ \S+) (\S+)/PID:(\d+) esrally.actor ERROR Cannot process message \[WakeupMessage", log, re.M)
        if not m:
            print("demo setup problem: the injected fault did not fire\n" + out)
            sys.exit(2)
        failed_at = time.mktime(time.strptime(m.group(1).split(",")[0], "%Y-%m-%d %H:%M:%S"))
        pid = int(m.group(3))
        after = [s for s in samples.get(pid, []) if s[0] >= failed_at + 1]
        spin = (after[-1][1] - after[0][1]) / (after[-1][0] - after[0][0]) if len(after) > 1 and after[-1][0] > after[0][0] else float("nan")
        before = [s for s in samples.get(pid, []) if s[0] < failed_at - 1]
        idle = (before[-1][1] - before[0][1]) / (before[-1][0] - before[0][0]) if len(before) > 1 and before[-1][0] > before[0][0] else float("nan")
        notified = "Received a benchmark failure" in log
    finally:
        stop.set()
        for q in list(marked(marker)):
            try:
                q.kill()
            except psutil.NoSuchProcess:
                pass
        shutil.rmtree(work, ignore_errors=True)

    print(f"NodeMechanicActor (pid {pid}, {m.group(2)}) logged at {m.group(1)}: 'Cannot process message [WakeupMessage...]' (metrics store flush failed)")
    print(f"race control received a BenchmarkFailure : {notified}")
    print(f"outcome printed by `esrally race`         : {outcome}")
    print(f"final results stored in race.json         : {results_stored}")
    print(f"CPU usage of the NodeMechanicActor process: {idle:.0%} of a core before the failure, {spin:.0%} of a core after it")
    if outcome == "FAILURE" and not results_stored and notified:
        print("OK: the failure reached race control, the race ended as FAILURE and no results were stored.")
        sys.exit(0)
    print(
        "DEFECT: expected that race control is notified when the metrics store fails while the node mechanic stores samples, that the "
        f"race ends as FAILURE and that no final results are stored; observed: race control notified={notified}, outcome={outcome}, "
        f"results stored={results_stored} (and the actor keeps sending the BenchmarkFailure to itself: {spin:.0%} CPU)."
    )
    sys.exit(1)


if __name__ == "__main__":
    main()
