import asyncio, elasticsearch
from unittest import mock
from esrally.driver import runner
calls=[]
async def delegate(es, params):
    calls.append(1)
    if len(calls)==1:
        raise elasticsearch.exceptions.SerializationError("boom")
    return {"success": True}
d = mock.AsyncMock(side_effect=delegate)
r = runner.Retry(d)
sleeps=[]
async def fake_sleep(t): sleeps.append(t)
async def main():
    with mock.patch("asyncio.sleep", fake_sleep):
        try:
            res = await r(None, {"retries": 3, "retry-wait-period": 0.5, "retry-on-timeout": True, "retry-on-error": True})
            print("returned", res, "calls", len(calls), "sleeps", sleeps)
            raise SystemExit("FAIL: non-retryable transport error was swallowed and retried")
        except elasticsearch.exceptions.SerializationError:
            print("propagated; calls", len(calls))
asyncio.run(main())
