from esrally.utils import versions
r = versions.best_match(["7.0", "6", "master"], "7.3.1")
print(r)
assert r == "7.0", r
assert versions.best_match(["7", "7.0", "master"], "7.3.1") == "7.0"
assert versions.best_match(["7.2", "7.0", "7", "master"], "7.1.0") == "7.0"
