"""
C10 / f3: a track parameter that is used (and substituted) inside an included part is reported as *unused* and the
valid track is rejected with TrackConfigError.

docs/adding_tracks.rst: '{% include "challenges/index-and-query.json" %} ... You can use include on arbitrary parts of
your track.'  docs/command_line_reference.rst (track-params) shows exactly the kind of challenge snippet used below.

Parameter accounting (register_all_params_in_track) only sees the text of the top-level file plus those parts that the
regular expression TemplateSource.collect_parts_re inlines textually, i.e. ONLY the exact spelling
`{{ rally.collect(parts="...") }}`.  Everything Jinja itself includes at render time is invisible to it:
`{% include "..." %}`, `{{rally.collect(parts="...")}}` (no blanks), `{{ rally.collect(parts='...') }}` (single quotes),
`{{ rally.collect("...") }}` (positional), `{{- rally.collect(parts="...") -}}` (whitespace control).

Run:  cd <checkout> && PYTHONPATH=<checkout> /venv/bin/python demo.py
"""
import contextlib
import io
import logging
import os
import shutil
import sys
import tempfile

import esrally
from esrally import config, exceptions
from esrally.track import loader

logging.disable(logging.CRITICAL)  # the loader logs its complaint (critical) and prints it on the console as well

# the challenge snippet from docs/command_line_reference.rst ("track-params")
CHALLENGE = """{
  "name": "index-only",
  "default": true,
  "schedule": [
     {
       "operation": {
         "operation-type": "bulk",
         "bulk-size": {{ bulk_size|default(5000) }}
       },
       "warmup-time-period": 120,
       "clients": {{ clients|default(8) }}
     }
  ]
}
"""

MAIN_TEMPLATES = {
    'reference: {{ rally.collect(parts="challenges/*.json") }}': '{% import "rally.helpers" as rally %}\n'
    '{"version": 2, "challenges": [ {{ rally.collect(parts="challenges/*.json") }} ]}',
    '{% include "challenges/index-only.json" %}': '{"version": 2, "challenges": [ {% include "challenges/index-only.json" %} ]}',
    '{{rally.collect(parts="challenges/*.json")}}': '{% import "rally.helpers" as rally %}\n'
    '{"version": 2, "challenges": [ {{rally.collect(parts="challenges/*.json")}} ]}',
    "{{ rally.collect(parts='challenges/*.json') }}": '{% import "rally.helpers" as rally %}\n'
    "{\"version\": 2, \"challenges\": [ {{ rally.collect(parts='challenges/*.json') }} ]}",
}


def load(main_template, track_params):
    d = tempfile.mkdtemp(prefix="c10-f3-")
    try:
        os.makedirs(os.path.join(d, "challenges"))
        with open(os.path.join(d, "track.json"), "w", encoding="utf-8") as f:
            f.write(main_template)
        with open(os.path.join(d, "challenges", "index-only.json"), "w", encoding="utf-8") as f:
            f.write(CHALLENGE)
        cfg = config.Config()
        cfg.add(config.Scope.application, "node", "rally.root", os.path.dirname(esrally.__file__))
        cfg.add(config.Scope.application, "track", "params", track_params)
        with contextlib.redirect_stdout(io.StringIO()):  # the loader also prints its complaint on the console
            return loader.TrackFileReader(cfg).read("demo", os.path.join(d, "track.json"), d)
    finally:
        shutil.rmtree(d, ignore_errors=True)


failures = []
for label, main_template in MAIN_TEMPLATES.items():
    # --track-params="bulk_size:2000,clients:16"  (the example of the docs)
    params = {"bulk_size": 2000, "clients": 16}
    expected = "loaded, bulk-size=2000, clients=16"
    try:
        t = load(main_template, params)
        task = t.challenges[0].schedule[0]
        observed = f"loaded, bulk-size={task.operation.params['bulk-size']}, clients={task.clients}"
    except (exceptions.TrackConfigError, loader.TrackSyntaxError) as e:
        observed = f"rejected, {type(e).__name__}: {e}"
    # without parameters every spelling loads and takes the defaults, i.e. the parameters ARE known to the template
    t0 = load(main_template, {})
    task0 = t0.challenges[0].schedule[0]
    assert (task0.operation.params["bulk-size"], task0.clients) == (5000, 8)
    ok = observed == expected
    print(f"[{'ok' if ok else 'FAIL'}] {label}\n       expected: {expected}\n       observed: {observed}")
    if not ok:
        failures.append(label)

if failures:
    print(
        "\nC10 VIOLATED: track parameters that the included part really uses ({{ bulk_size|default(5000) }}, "
        "{{ clients|default(8) }}) are not substituted; the valid specification is rejected as having 'unused track "
        f"parameters' for these ways of including the part: {failures}"
    )
    sys.exit(1)
print("all fine")
