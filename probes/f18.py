# F18 (C10): the track version is looked at before schema validation; `"version": null` (a list, an object) raised TypeError and a top-level JSON list raised AttributeError
# instead of a track syntax / configuration error. run: PYTHONPATH=/repo /venv/bin/python probes/f18.py
import json, os, sys, tempfile
sys.path.insert(0, "/repo")
from esrally import exceptions
from esrally.track import loader
d = tempfile.mkdtemp()
bad = 0
for label, version in (("null", None), ("a list", [2]), ("an object", {"v": 2}), ("(top-level JSON is a list)", "TOP")):
    spec = {"version": version, "description": "d", "indices": [{"name": "i"}], "operations": [{"name": "s", "operation-type": "search", "index": "i", "body": {}}],
            "challenges": [{"name": "c", "default": True, "schedule": [{"operation": "s"}]}]}
    path = os.path.join(d, "track.json")
    json.dump([spec] if version == "TOP" else spec, open(path, "w"))
    from esrally import config, paths
    cfg = config.Config()
    cfg.add(config.Scope.application, "node", "rally.root", paths.rally_root())
    cfg.add(config.Scope.application, "track", "params", {})
    reader = loader.TrackFileReader(cfg)
    try:
        reader.read("t", path, d)
        out = "LOADED"
    except (loader.TrackSyntaxError, exceptions.InvalidSyntax, exceptions.RallyError) as e:
        out = f"rejected with {type(e).__name__}"
    except Exception as e:  # noqa
        out = f"CRASH {type(e).__name__}: {e}"
        bad += 1
    print(f"version is {label}: {out}")
raise SystemExit(f"FAIL: {bad} schema-violating version value(s) end in a Python error instead of a track syntax / configuration error" if bad else 0)
