"""
C06 / f1: a runner-supplied throughput is NOT passed through unchanged (and a None "throughput" value is stored) as soon as a
task mixes samples with and without a runner-supplied throughput; which of the two happens depends only on where the
driver happens to cut the sample stream into post-processing batches.

Everything below is real rally code (runner registry, Retry(WaitForTransform), schedule_for, AsyncExecutor, execute_single,
Sampler, SamplePostprocessor, ThroughputCalculator, InMemoryMetricsStore). Only the Elasticsearch client is faked: it answers
the transform stats API three times: "indexing" -> connection timeout -> "stopped".

Run:  cd <checkout> && PYTHONPATH=<checkout> /venv/bin/python demo.py
"""
import asyncio
import datetime
import itertools
import sys
import threading
import time

import elasticsearch

from esrally import config, metrics, track
from esrally.client.context import RequestContextHolder
from esrally.driver import driver, runner
from esrally.track import params


class FakeTransformClient:
    def __init__(self, holder):
        self.holder = holder
        self.calls = 0

    async def _request(self):
        self.holder.on_request_start()
        try:
            await asyncio.sleep(0.05)
        finally:
            self.holder.on_request_end()

    async def stop_transform(self, **kwargs):
        await self._request()
        return {"acknowledged": True}

    async def get_transform_stats(self, transform_id):
        self.calls += 1
        await self._request()
        if self.calls == 1:
            # transform is still running; enough progress so that the runner reports
            return {
                "transforms": [
                    {
                        "state": "indexing",
                        "checkpointing": {"next": {"checkpoint_progress": {"percent_complete": 30.0}}},
                        "stats": {"documents_processed": 20000, "search_time_in_ms": 1000, "processing_time_in_ms": 500, "index_time_in_ms": 500},
                    }
                ]
            }
        if self.calls == 2:
            # a transient network problem; with the default on-error behaviour ("continue") this is recorded as a failed sample
            raise elasticsearch.ConnectionTimeout("Connection timed out")
        return {
            "transforms": [
                {
                    "state": "stopped",
                    "stats": {"documents_processed": 60000, "search_time_in_ms": 2000, "processing_time_in_ms": 1000, "index_time_in_ms": 1000},
                }
            ]
        }


class FakeEs(RequestContextHolder):
    def __init__(self):
        self.transform = FakeTransformClient(self)


class ParamSource(params.ParamSource):
    def params(self):
        return dict(self._params)


def produce_samples():
    runner.register_default_runners()
    params.register_param_source_for_name("c06-f1-param-source", ParamSource)
    t = track.Track(name="unittest")
    task = track.Task(
        "wait-for-transform",
        track.Operation(
            "wait-for-transform",
            track.OperationType.WaitForTransform.to_hyphenated_string(),
            params={"transform-id": "t1", "poll-interval": 0.01, "include-in-reporting": True},
            param_source="c06-f1-param-source",
        ),
        clients=1,
    )
    param_source = track.operation_parameters(t, task)
    allocation = driver.TaskAllocation(task=task, client_index_in_task=0, global_client_index=0, total_clients=1)
    schedule = driver.schedule_for(allocation, param_source)
    sampler = driver.Sampler(start_timestamp=time.perf_counter())
    executor = driver.AsyncExecutor(
        client_id=0,
        task=task,
        schedule=schedule,
        es={"default": FakeEs()},
        sampler=sampler,
        cancel=threading.Event(),
        complete=threading.Event(),
        on_error="continue",
    )
    asyncio.run(executor())
    return task, sampler.samples


def new_store():
    cfg = config.Config()
    cfg.add(config.Scope.application, "system", "env.name", "unittest")
    cfg.add(config.Scope.application, "track", "params", {})
    store = metrics.InMemoryMetricsStore(cfg)
    store.open("race-id", datetime.datetime(2024, 1, 1), "unittest", "default", "defaults", create=True)
    return store


def throughput_docs(samples, cut_points):
    """post-process ``samples`` in consecutive batches that end at the given indices (exclusive)."""
    store = new_store()
    post_process = driver.SamplePostprocessor(store, downsample_factor=1, track_meta_data={}, challenge_meta_data={})
    start = 0
    for end in list(cut_points) + [len(samples)]:
        post_process(samples[start:end])
        start = end
    return [(d["value"], d["unit"]) for d in store.docs if d["name"] == "throughput"]


def main():
    task, samples = produce_samples()
    supplied = [s.throughput for s in samples]
    print("samples produced by AsyncExecutor (runner-supplied throughput, weight, unit, success):")
    for s in samples:
        print(f"   throughput={s.throughput!r:>8} weight={s.total_ops!r:>6} unit={s.total_ops_unit!r:>6} success={s.request_meta_data['success']}")
    assert len(samples) == 3 and supplied[0] == 10000 and supplied[1] is None and supplied[2] == 15000, supplied

    expected_supplied = [t for t in supplied if t is not None]
    problems = []
    results = {}
    n = len(samples)
    for k in range(n):
        for cuts in itertools.combinations(range(1, n), k):
            batches = "|".join(str(len(b)) for b in _split(samples, cuts))
            docs = throughput_docs(samples, cuts)
            results[batches] = docs
            values = [v for v, _ in docs]
            print(f"batch sizes {batches:>6}: throughput records = {docs}")
            if any(v is None for v in values):
                problems.append(f"batch sizes {batches}: a throughput record with value None was stored: {values}")
            passed_through = [v for v in values if v in expected_supplied]
            if passed_through != expected_supplied:
                problems.append(
                    f"batch sizes {batches}: expected the runner-supplied throughputs {expected_supplied} to be passed through "
                    f"unchanged but the stored throughput values are {values}"
                )
    if len({tuple(v) for v in results.values()}) > 1:
        problems.append("the stored throughput records depend on how the same sample stream was cut into batches")

    if problems:
        print("\nVIOLATION of C06 (runner-supplied throughput is passed through unchanged / values are non-negative numbers / "
              "independent of batching):")
        for p in problems:
            print("  - " + p)
        sys.exit(1)
    print("OK: runner-supplied throughput passed through unchanged for every batching")


def _split(samples, cuts):
    start = 0
    for end in list(cuts) + [len(samples)]:
        yield samples[start:end]
        start = end


if __name__ == "__main__":
    main()
