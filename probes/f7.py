import asyncio
from esrally.client.context import RequestContextHolder
h = RequestContextHolder()
async def child(start, end, exit_delay):
    with h.new_request_context() as c:
        h.update_request_start(start)   # what on_request_start does with the clock value
        h.update_request_end(end)
        await asyncio.sleep(exit_delay)
async def main():
    with h.new_request_context() as outer:
        with h.new_request_context() as composite:
            t1 = asyncio.create_task(child(0.00, 0.30, 0.03))  # starts first, finishes last
            t2 = asyncio.create_task(child(0.05, 0.10, 0.01))  # starts later, finishes first
            await asyncio.gather(t1, t2)
        print("outer", outer.request_start, outer.request_end)
        assert outer.request_start == 0.00, f"outer start {outer.request_start} is not the earliest sub-request start"
        assert outer.request_end == 0.30
asyncio.run(main())
