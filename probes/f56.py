"""
C20 / f2: when the baseline value is 0 the relative difference ("Diff %") is printed as "0.00%" in the
neutral colour whatever the contender value is, although the absolute difference on the same line is
non-zero and coloured as a regression / improvement.  Swapping the two races turns the neutral "0.00%"
into a coloured "-100.00%", i.e. the swap does not flip sign and colour.

Runs the real esrally code end to end: two races are stored with the real FileRaceStore and compared
with reporter.compare(); only stdout is captured.  A baseline of 0 is the normal case for error rate,
throttle times, flush / merge counts, old-gen GC counts ...

run: cd <checkout> && PYTHONPATH=<checkout> /venv/bin/python demo.py
"""
import contextlib
import csv
import datetime
import io
import os
import re
import sys
import tempfile

from esrally import config, metrics, reporter, track
from esrally.utils import console

COLOURS = {"31": "red", "32": "green", "39": "neutral"}
CELL = re.compile(r"^\x1b\[(\d+);1m(.*)\x1b\[0m$")


def make_cfg(root, report_format="csv"):
    cfg = config.Config()
    cfg.add(config.Scope.application, "system", "env.name", "demo")
    cfg.add(config.Scope.application, "node", "root.dir", root)
    cfg.add(config.Scope.application, "node", "rally.cwd", root)
    cfg.add(config.Scope.application, "reporting", "datastore.type", "in-memory")
    cfg.add(config.Scope.application, "reporting", "format", report_format)
    cfg.add(config.Scope.application, "reporting", "output.path", "")
    cfg.add(config.Scope.application, "reporting", "numbers.align", "decimal")
    return cfg


def store_race(cfg, race_id, results):
    """persists a race exactly as `esrally race` does (Race.as_dict -> race.json)"""
    cfg.add(config.Scope.application, "system", "race.id", race_id)
    race = metrics.Race(
        rally_version="2.12.0",
        rally_revision=None,
        environment_name="demo",
        race_id=race_id,
        race_timestamp=datetime.datetime(2024, 1, 1, 12, 0, 0),
        pipeline="benchmark-only",
        user_tags={},
        track=track.Track(name="demo-track"),
        track_params=None,
        challenge=track.Challenge(name="demo-challenge"),
        car="external",
        car_params=None,
        plugin_params=None,
    )
    race.add_results(metrics.GlobalStats(results))
    metrics.FileRaceStore(cfg).store_race(race)


def compare(cfg, baseline_id, contender_id):
    """returns {metric: (diff_text, diff_colour, pct_text, pct_colour)} parsed from the console output"""
    out = io.StringIO()
    with contextlib.redirect_stdout(out):
        reporter.compare(cfg, baseline_id, contender_id)
    text = out.getvalue()
    table = text[text.index("Metric,Task,Baseline,Contender,Diff,Unit,Diff %") :]
    rows = {}
    for row in list(csv.reader(io.StringIO(table)))[1:]:
        if len(row) != 7:
            continue
        d, p = CELL.match(row[4]), CELL.match(row[6])
        rows[row[0]] = (d.group(2), COLOURS[d.group(1)], p.group(2), COLOURS[p.group(1)], row[2], row[3])
    return rows


def task(error_rate):
    return {
        "task": "index-append",
        "operation": "bulk",
        "throughput": {"min": 1000.0, "mean": 1100.0, "median": 1100.0, "max": 1200.0, "unit": "docs/s"},
        "latency": {"50_0": 10.0, "100_0": 20.0, "mean": 11.0, "unit": "ms"},
        "service_time": {"50_0": 10.0, "100_0": 20.0, "mean": 11.0, "unit": "ms"},
        "processing_time": {"50_0": 10.0, "100_0": 20.0, "mean": 11.0, "unit": "ms"},
        "error_rate": error_rate,
        "duration": 60000,
    }


def main():
    console.init(quiet=False, assume_tty=True)  # what esrally's main() does; colours on
    if console.format is not console.RichFormat:
        print("this demo needs a colour capable TERM (TERM must not be 'dumb')")
        return 2
    root = tempfile.mkdtemp(prefix="c20-f2-")
    cfg = make_cfg(root)
    # baseline: clean run.  contender: half of the requests fail, merges get throttled for a minute, 4 old gen GCs
    store_race(cfg, "race-a", {"op_metrics": [task(0.0)], "merge_throttle_time": 0, "old_gc_count": 0, "old_gc_time": 0})
    store_race(cfg, "race-b", {"op_metrics": [task(0.5)], "merge_throttle_time": 60000, "old_gc_count": 4, "old_gc_time": 2500})

    interesting = ["Cumulative merge throttle time of primary shards", "Total Old Gen GC time", "Total Old Gen GC count", "error rate"]
    problems = []
    ab = compare(cfg, "race-a", "race-b")
    ba = compare(cfg, "race-b", "race-a")

    def show(title, rows):
        print(title)
        for name in interesting:
            d, dc, p, pc, b, c = rows[name]
            print(f"  {name:50s} baseline={b:>6s} contender={c:>6s} Diff={d:>10s} [{dc:7s}]  Diff %={p:>9s} [{pc:7s}]")

    show("baseline=race-a contender=race-b", ab)
    show("baseline=race-b contender=race-a (swapped)", ba)
    for name in interesting:
        d, dc, p, pc, b, c = ab[name]
        sd, sdc, sp, spc, _, _ = ba[name]
        if dc != "neutral" and pc == "neutral":
            problems.append(
                f"{name}: baseline {b} -> contender {c}: Diff is {d} ({dc}) but the relative difference is printed as {p} ({pc}); "
                f"expected a non-zero Diff % marked {dc} like the absolute difference (the change is not 0 %)"
            )
        if spc != "neutral" and pc == "neutral":
            problems.append(
                f"{name}: swapped comparison prints Diff % {sp} ({spc}) but the original prints {p} ({pc}); "
                f"expected the swap to flip sign and colour"
            )

    if problems:
        print("\nFAIL - C20 violated (relative difference against a zero baseline is reported as a neutral 0.00%):")
        for p in problems:
            print("  * " + p)
        return 1
    print("\nOK - a change away from a zero baseline is marked in both Diff and Diff %, and the swap flips it")
    return 0


if __name__ == "__main__":
    sys.exit(main())
