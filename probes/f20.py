# completed-by: any -- "ends when the first task to finish is done".  A worker whose clients have NOTHING to do in the element (the element uses fewer clients than
# the widest element of the schedule, one client per worker) walks straight to the join point.  The coordinator must not take that arrival for "a task has finished".
import logging
from unittest import mock
from esrally.driver import driver
from esrally.track import track

op = track.Operation("op", "bulk", params={})
wide = track.Task("wide", op, clients=2)
tA = track.Task("A", op, any_completes_parent=True)
par = track.Parallel([tA], clients=1)                    # uses 1 of the 2 clients: client 1 idles through it
alloc = driver.Allocator([wide, par]).allocations

d = driver.Driver.__new__(driver.Driver)
d.logger = logging.getLogger("x")
sent = []
d.driver_actor = mock.Mock()
d.driver_actor.complete_current_task = lambda w: sent.append(w)
d.workers = ["w0", "w1"]
d.clients_per_worker = {0: 0, 1: 1}
d.workers_completed_current_step = {}
d.complete_current_task_sent = False
d.currently_completed = 0

# worker 1 (client 1) has finished "wide", was driven on, has no task in the parallel element and reports the join point after it
ca = driver.ClientAllocations(); ca.add(1, alloc[1])
idx = max(i for i in range(len(alloc[1])) if isinstance(alloc[1][i], driver.JoinPoint))
arrival = ca.tasks(idx)                                   # what JoinPointReached carries
d.workers_completed_current_step[1] = (0.0, 0.0)
d.may_complete_current_task(arrival)
print("CompleteCurrentTask sent to", sent, "after the arrival of a worker that executed no task of the element")
assert not sent, "the idle worker's arrival completes the element: task A is cut short after its first request although no task has finished"
