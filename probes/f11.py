# F11 (known finding, C08): all-zero normal samples -> summary statistics None instead of 0.
from esrally import config, metrics
from esrally.metrics import SampleType
cfg = config.Config()
cfg.add(config.Scope.application, "system", "env.name", "unittest")
cfg.add(config.Scope.application, "track", "params", {})
store = metrics.InMemoryMetricsStore(cfg)
import datetime
store.open("id", datetime.datetime(2026, 1, 1), "t", "c", "defaults", create=True)
for v in (0.0, 0.0):
    store.put_value_cluster_level("throughput", v, unit="docs/s", task="index", operation_type="bulk", sample_type=SampleType.Normal)
calc = metrics.GlobalStatsCalculator(store, None, None)
s = calc.summary_stats("throughput", "index", "bulk")
print(s)
assert s["mean"] == 0.0 and s["min"] == 0.0, "zero-valued statistics reported as None"
