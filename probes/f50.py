"""
C06 / f2: the unit of a calculated throughput value is taken from whichever sample happens to close the bucket (or to be the last
one of a post-processing batch). A request that fails with a transport / API error is recorded (on-error=continue, the default)
with weight 0 and the *placeholder* unit "ops". If such a sample closes a bucket, the throughput value - which counts the
task's docs - is stored as "<n> ops/s" instead of "<n> docs/s". The summary report takes the unit of the *first* throughput
record of the task (MetricsStore.get_unit), so a bulk task is then reported in "ops/s" altogether.

Real rally code: runner registry + bulk runner, schedule_for, AsyncExecutor, execute_single, Sampler, SamplePostprocessor,
ThroughputCalculator, InMemoryMetricsStore. Only the Elasticsearch client is faked (bulk API: the 3rd call times out).

Run:  cd <checkout> && PYTHONPATH=<checkout> /venv/bin/python demo.py
"""
import asyncio
import datetime
import io
import sys
import threading
import time

import elasticsearch

from esrally import config, metrics, track
from esrally.client.context import RequestContextHolder
from esrally.driver import driver, runner
from esrally.track import params

# (duration in seconds, fails?) of the bulk requests that the fake cluster serves
SCRIPT = [(0.3, False), (0.6, False), (0.3, True), (0.3, False), (0.3, False), (0.3, False)]
BULK_SIZE = 500


class FakeEs(RequestContextHolder):
    def __init__(self):
        self.calls = 0

    async def bulk(self, **kwargs):
        duration, fails = SCRIPT[self.calls]
        self.calls += 1
        self.on_request_start()
        try:
            await asyncio.sleep(duration)
            if fails:
                raise elasticsearch.ConnectionTimeout("Connection timed out")
            return io.BytesIO(b'{"errors": false, "took": 8}')
        finally:
            self.on_request_end()


class ParamSource(params.ParamSource):
    def params(self):
        return dict(self._params)


def produce_samples():
    runner.register_default_runners()
    params.register_param_source_for_name("c06-f2-param-source", ParamSource)
    t = track.Track(name="unittest")
    task = track.Task(
        "bulk-index",
        track.Operation(
            "bulk-index",
            track.OperationType.Bulk.to_hyphenated_string(),
            params={
                "body": "action_and_meta_data_line\nindex_line\n" * BULK_SIZE,
                "action-metadata-present": True,
                "bulk-size": BULK_SIZE,
                "unit": "docs",
            },
            param_source="c06-f2-param-source",
        ),
        iterations=len(SCRIPT),
        clients=1,
    )
    param_source = track.operation_parameters(t, task)
    allocation = driver.TaskAllocation(task=task, client_index_in_task=0, global_client_index=0, total_clients=1)
    schedule = driver.schedule_for(allocation, param_source)
    sampler = driver.Sampler(start_timestamp=time.perf_counter())
    executor = driver.AsyncExecutor(
        client_id=0,
        task=task,
        schedule=schedule,
        es={"default": FakeEs()},
        sampler=sampler,
        cancel=threading.Event(),
        complete=threading.Event(),
        on_error="continue",
    )
    asyncio.run(executor())
    return task, sampler.samples


def new_store():
    cfg = config.Config()
    cfg.add(config.Scope.application, "system", "env.name", "unittest")
    cfg.add(config.Scope.application, "track", "params", {})
    store = metrics.InMemoryMetricsStore(cfg)
    store.open("race-id", datetime.datetime(2024, 1, 1), "unittest", "default", "defaults", create=True)
    return store


def post_process(samples, batch_sizes):
    store = new_store()
    pp = driver.SamplePostprocessor(store, downsample_factor=1, track_meta_data={}, challenge_meta_data={})
    start = 0
    for size in batch_sizes:
        pp(samples[start : start + size])
        start += size
    assert start == len(samples)
    docs = [(round(d["value"], 1), d["unit"]) for d in store.docs if d["name"] == "throughput"]
    return docs, store.get_unit("throughput", task="bulk-index")


def main():
    print("running a bulk task (6 bulk requests of 500 docs each, the 3rd one times out) ...")
    task, samples = produce_samples()
    for s in samples:
        print(f"   weight={s.total_ops!r:>4} unit={s.total_ops_unit!r:>6} success={s.request_meta_data['success']}")
    assert [s.total_ops_unit for s in samples] == ["docs", "docs", "ops", "docs", "docs", "docs"]

    problems = []
    for batch_sizes in ([6], [2, 4], [3, 3], [1, 1, 1, 1, 1, 1]):
        docs, report_unit = post_process(samples, batch_sizes)
        print(f"batch sizes {batch_sizes}: throughput records {docs}; unit shown in the summary report: {report_unit!r}")
        wrong = [(v, u) for v, u in docs if u != "docs/s"]
        if wrong:
            problems.append(
                f"batch sizes {batch_sizes}: expected every throughput value of the bulk task in 'docs/s' but got {wrong}"
                f" (these values count docs: {BULK_SIZE} docs per successful bulk)"
            )
        if report_unit != "docs/s":
            problems.append(f"batch sizes {batch_sizes}: the summary report would label the task's throughput {report_unit!r} instead of 'docs/s'")
    if problems:
        print("\nVIOLATION of C06 (the unit of a throughput value is '<ops unit>/s'):")
        for p in problems:
            print("  - " + p)
        sys.exit(1)
    print("OK: all throughput values are reported in docs/s")


if __name__ == "__main__":
    main()
