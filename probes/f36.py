"""
C10 / f4: operations that docs/track.rst documents as valid are rejected by esrally/resources/track-schema.json -- but
only when they are written in the top-level "operations" block. The identical operation written inline in the schedule
(which the schema does not look into) loads fine, and the runners / parameter sources handle the values.

  * scroll-search / paginated-search / composite-agg: '"pages" ... To retrieve all result pages, use the value "all".'
      schema: operations[].pages  = {"type": "integer", "minimum": 1}
  * create-index / delete-index: '"index" (mandatory): One or more names of the indices ... If only one index should be
    created, you can use a string otherwise this needs to be a list of strings.'
      schema: operations[].index  = {"type": "string"}

Run:  cd <checkout> && PYTHONPATH=<checkout> /venv/bin/python demo.py
"""
import copy
import json
import os
import shutil
import sys
import tempfile

import esrally
from esrally import config
from esrally.track import loader


def load(track_spec):
    d = tempfile.mkdtemp(prefix="c10-f4-")
    try:
        with open(os.path.join(d, "track.json"), "w", encoding="utf-8") as f:
            f.write(json.dumps(track_spec, indent=2))
        cfg = config.Config()
        cfg.add(config.Scope.application, "node", "rally.root", os.path.dirname(esrally.__file__))
        cfg.add(config.Scope.application, "track", "params", {})
        return loader.TrackFileReader(cfg).read("demo", os.path.join(d, "track.json"), d)
    finally:
        shutil.rmtree(d, ignore_errors=True)


OPERATIONS = [
    {
        "name": "scroll-all",
        "operation-type": "scroll-search",
        "pages": "all",
        "results-per-page": 1000,
        "body": {"query": {"match_all": {}}},
    },
    {
        "name": "page-all",
        "operation-type": "paginated-search",
        "pages": "all",
        "results-per-page": 1000,
        "body": {"query": {"match_all": {}}},
    },
    {"name": "create-both", "operation-type": "create-index", "index": ["logs-1", "logs-2"]},
    {"name": "delete-both", "operation-type": "delete-index", "index": ["logs-1", "logs-2"]},
]

failures = []
for op in OPERATIONS:
    key = "pages" if "pages" in op else "index"
    results = {}
    for where, spec in (
        ("inline in the schedule", {"schedule": [{"operation": copy.deepcopy(op)}]}),
        ("in the 'operations' block", {"operations": [copy.deepcopy(op)], "schedule": [{"operation": op["name"]}]}),
    ):
        try:
            t = load(spec)
            loaded_op = t.challenges[0].schedule[0].operation
            results[where] = f"loaded, {loaded_op.type} with {key}={loaded_op.params[key]!r}"
        except loader.TrackSyntaxError as e:
            results[where] = "rejected, TrackSyntaxError: " + " ".join(str(e).split())[:110] + "..."
    expected = f"loaded, {op['operation-type']} with {key}={op[key]!r}"
    for where, observed in results.items():
        ok = observed == expected
        print(f"[{'ok' if ok else 'FAIL'}] {op['name']} {where}\n       expected: {expected}\n       observed: {observed}")
        if not ok:
            failures.append(f"{op['name']} {where}")

if failures:
    print(
        "\nC10 VIOLATED: documented, valid operations are not loaded but rejected with a track syntax error when (and only "
        f"when) they are defined in the 'operations' block: {failures}"
    )
    sys.exit(1)
print("all fine")
