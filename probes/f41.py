#!/usr/bin/env python
"""
C12 / finding 1: a remote Rally daemon that leaves *after* the Dispatcher has handed out the StartNodes messages
(i.e. while the host is still downloading / building / installing / launching its nodes) is never reported to
race control: the benchmark hangs instead of failing.

Everything is real (thespian multiprocTCPBase on the loopback interface, two actor systems that form a convention,
the real MechanicActor / Dispatcher / NodeMechanicActor / Mechanic), except

  * ``mechanic.create`` hands the real ``Mechanic`` a launcher whose ``start()`` blocks until it is released
    (this stands in for "download + build + install + start Elasticsearch", which takes minutes in reality),
  * the admin ports are not 1900 so that the demo does not collide with a running Rally daemon.

Run as:  cd <checkout> && PYTHONPATH=<checkout> /venv/bin/python demo.py
"""
import os
import shutil
import socket
import subprocess
import sys
import tempfile
import time

LISTEN_SECONDS = 45


def free_port():
    s = socket.socket()
    s.bind(("127.0.0.1", 0))
    p = s.getsockname()[1]
    s.close()
    return p


def prepare_environment(workdir):
    # keep everything (rally.ini, logging.json, logs) away from the real ~/.rally
    os.environ["RALLY_HOME"] = workdir
    os.environ["THESPLOG_FILE"] = os.path.join(workdir, "thespian.log")
    os.environ["THESPLOG_THRESHOLD"] = "INFO"


def install_fakes(workdir):
    """The only fake: node start-up blocks (until a release file shows up) instead of really launching Elasticsearch."""
    from esrally.mechanic import mechanic

    class BlockingLauncher:
        def __init__(self, ip):
            self.ip = ip

        def start(self, node_configurations):
            with open(os.path.join(workdir, "starting-%s" % self.ip), "w") as f:
                f.write(str(os.getpid()))
            if os.path.exists(os.path.join(workdir, "fast-%s" % self.ip)):
                return []
            while not os.path.exists(os.path.join(workdir, "release")):
                time.sleep(0.1)
            return []

        def stop(self, nodes, metrics_store):
            with open(os.path.join(workdir, "stopped-%s" % self.ip), "w") as f:
                f.write(str(os.getpid()))
            return []

    def create(cfg, metrics_store, node_ip, node_http_port, all_node_ips, all_node_ids, sources=False, distribution=False,
               external=False, docker=False):
        return mechanic.Mechanic(cfg, metrics_store, supply=lambda: {}, provisioners=[], launcher=BlockingLauncher(node_ip))

    mechanic.create = create


def make_team(workdir):
    team = os.path.join(workdir, "team")
    os.makedirs(os.path.join(team, "cars", "v1", "vanilla", "templates", "config"), exist_ok=True)
    with open(os.path.join(team, "cars", "v1", "defaults.ini"), "w") as f:
        f.write("[meta]\ndescription=demo\ntype=car\n\n[config]\nbase=vanilla\n\n[variables]\nruntime.jdk=21\nruntime.jdk.bundled=true\n")
    with open(os.path.join(team, "cars", "v1", "vanilla", "templates", "config", "elasticsearch.yml"), "w") as f:
        f.write("http.port: {{http_port}}\n")
    return team


def make_cfg(workdir, target_hosts):
    from esrally import config
    from esrally.utils import opts

    cfg = config.Config()
    if not cfg.config_present():
        cfg.install_default_config()
    cfg.load_config()
    o = config.Scope.applicationOverride
    cfg.add(o, "system", "race.id", "c12-f1")
    cfg.add(o, "system", "install.id", "c12-f1")
    cfg.add(o, "system", "offline.mode", True)
    cfg.add(o, "mechanic", "team.path", make_team(workdir))
    cfg.add(o, "mechanic", "repository.revision", None)
    cfg.add(o, "mechanic", "car.names", ["defaults"])
    cfg.add(o, "mechanic", "car.params", {})
    cfg.add(o, "mechanic", "car.plugins", [])
    cfg.add(o, "mechanic", "plugin.params", {})
    cfg.add(o, "mechanic", "distribution.version", "8.0.0")
    cfg.add(o, "mechanic", "runtime.jdk", "bundled")
    cfg.add(o, "mechanic", "preserve.install", False)
    cfg.add(o, "client", "hosts", opts.TargetHosts(target_hosts))
    cfg.add(o, "telemetry", "devices", [])
    cfg.add(o, "telemetry", "params", {})
    cfg.add(o, "race", "user.tags", {})
    cfg.add(o, "track", "params", {})
    return cfg


def start_actor_system(admin_port, leader_port, coordinator, ip):
    import thespian.actors

    from esrally import log

    return thespian.actors.ActorSystem(
        "multiprocTCPBase",
        logDefs=log.load_configuration(),
        capabilities={
            # same capabilities as actor.bootstrap_actor_system() ...
            "coordinator": coordinator,
            "ip": ip,
            "Convention Address.IPv4": "127.0.0.1:%d" % leader_port,
            # ... but not on Rally's fixed port 1900
            "Admin Port": admin_port,
        },
    )


def wait_for(path, timeout, what):
    deadline = time.time() + timeout
    while time.time() < deadline:
        if os.path.exists(path):
            return
        time.sleep(0.1)
    print("SETUP PROBLEM: timed out waiting for %s" % what)
    sys.exit(3)


def remote_daemon(workdir, leader_port, my_port, ip):
    """Stands in for `esrallyd start --node-ip=<ip> --coordinator-ip=<leader>` / `esrallyd stop` on a target machine."""
    prepare_environment(workdir)
    install_fakes(workdir)
    asys = start_actor_system(my_port, leader_port, coordinator=False, ip=ip)
    with open(os.path.join(workdir, "daemon-up-%s" % ip), "w") as f:
        f.write("up")
    stop_file = os.path.join(workdir, "daemon-stop-%s" % ip)
    while not os.path.exists(stop_file):
        time.sleep(0.1)
    # esrallyd stop
    asys.shutdown()
    with open(os.path.join(workdir, "daemon-down-%s" % ip), "w") as f:
        f.write("down")


class Daemon:
    def __init__(self, workdir, leader_port, ip):
        self.workdir = workdir
        self.ip = ip
        self.proc = subprocess.Popen([sys.executable, os.path.abspath(__file__), "remote", workdir, str(leader_port), str(free_port()), ip])
        wait_for(os.path.join(workdir, "daemon-up-%s" % ip), 60, "remote daemon %s" % ip)

    def stop(self):
        with open(os.path.join(self.workdir, "daemon-stop-%s" % self.ip), "w") as f:
            f.write("stop")
        wait_for(os.path.join(self.workdir, "daemon-down-%s" % self.ip), 120, "remote daemon %s to shut down" % self.ip)
        self.proc.wait(60)


def wait_for_log(workdir, needle, timeout, what):
    logfile = os.path.join(workdir, ".rally", "logs", "rally.log")
    deadline = time.time() + timeout
    while time.time() < deadline:
        if os.path.exists(logfile):
            with open(logfile) as f:
                if needle in f.read():
                    return
        time.sleep(0.2)
    print("SETUP PROBLEM: timed out waiting for %s" % what)
    sys.exit(3)


def listen(endpoint, seconds):
    deadline = time.time() + seconds
    while time.time() < deadline:
        received = endpoint.listen(max(0.1, deadline - time.time()))
        if received is not None:
            return received
    return None


def describe(received):
    from esrally import actor

    if isinstance(received, actor.BenchmarkFailure):
        return "BenchmarkFailure [%s]" % str(received.message).strip().splitlines()[-1]
    elif received is None:
        return "nothing"
    else:
        return type(received).__name__


def scenario(name, workdir, asys, leader_port, target_hosts, joining, leaving, wait_until_starting):
    """
    Plays race control: sends StartEngine to a fresh MechanicActor, lets the Rally daemon on ``leaving`` go away (esrallyd stop) and
    returns what race control is told (1) within LISTEN_SECONDS after that and (2) after the hosts have finished starting their nodes.
    """
    import thespian.actors

    from esrally.mechanic import mechanic

    print("--- %s: target hosts [%s]" % (name, target_hosts))
    for f in os.listdir(workdir):
        if f.startswith(("starting-", "stopped-", "daemon-", "release")):
            os.remove(os.path.join(workdir, f))
    daemons = {ip: Daemon(workdir, leader_port, ip) for ip in joining}
    cfg = make_cfg(workdir, target_hosts)
    # a private endpoint per scenario: messages that belong to an earlier scenario cannot be mistaken for this one's
    with asys.private() as race_control:
        mech = race_control.createActor(mechanic.MechanicActor, targetActorRequirements={"coordinator": True})
        open_ctx = {"race-id": "c12-f1", "race-timestamp": "20260101T000000Z", "track": "t", "challenge": "c", "car": ["defaults"]}
        race_control.tell(mech, mechanic.StartEngine(cfg, open_ctx, sources=False, distribution=True, external=False, docker=False))
        if wait_until_starting:
            wait_for(os.path.join(workdir, "starting-%s" % leaving), 60, "node start-up on %s" % leaving)
            print("    all daemons have joined, StartNodes has been handed out and host %s is busy starting its nodes" % leaving)
        else:
            wait_for_log(workdir, "Remote Rally node [%s] has started." % leaving, 60, "the daemon on %s to join" % leaving)
            print("    the daemon on %s has joined, the Dispatcher still waits for the other daemon(s)" % leaving)
        print("    >>> esrallyd stop on %s" % leaving)
        daemons.pop(leaving).stop()
        first = listen(race_control, LISTEN_SECONDS)
        print("    race control was told within %d s: %s" % (LISTEN_SECONDS, describe(first)))
        second = None
        stopped_again = False
        if first is None:
            # let the "download / build / install / launch" finish on all hosts
            with open(os.path.join(workdir, "release"), "w") as f:
                f.write("go")
            second = listen(race_control, 20)
            print("    ... then the hosts finish starting their nodes; race control is told: %s" % describe(second))
            # the daemon shutdown has queued an ActorExitRequest behind StartNodes: is the freshly started host stopped again?
            deadline = time.time() + 15
            while time.time() < deadline and not stopped_again:
                stopped_again = os.path.exists(os.path.join(workdir, "stopped-%s" % leaving))
                time.sleep(0.2)
        # tear down like racecontrol.race() does in its finally block
        with open(os.path.join(workdir, "release"), "w") as f:
            f.write("go")
        race_control.tell(mech, thespian.actors.ActorExitRequest())
        for d in daemons.values():
            d.stop()
        time.sleep(1)
    return first, second, stopped_again


def main():
    from esrally import actor, log
    from esrally.mechanic import mechanic

    workdir = tempfile.mkdtemp(prefix="c12-f1-")
    prepare_environment(workdir)
    log.install_default_log_config()
    install_fakes(workdir)
    leader_port = free_port()
    asys = start_actor_system(leader_port, leader_port, coordinator=True, ip="127.0.0.1")
    rc = 0
    try:
        # control: the daemon leaves while the Dispatcher still waits for another daemon to join -> this IS reported
        control, _, _ = scenario(
            "control",
            workdir,
            asys,
            leader_port,
            "127.0.0.2:39200,127.0.0.3:39200",
            joining=["127.0.0.2"],
            leaving="127.0.0.2",
            wait_until_starting=False,
        )
        if not isinstance(control, actor.BenchmarkFailure):
            print("SETUP PROBLEM: the control scenario did not produce a BenchmarkFailure")
            return 3
        # finding: all daemons have joined, StartNodes was handed out, the host is busy starting its nodes and then its daemon leaves
        first, second, stopped_again = scenario(
            "finding",
            workdir,
            asys,
            leader_port,
            "127.0.0.1:39200,127.0.0.2:39200",
            joining=["127.0.0.2"],
            leaving="127.0.0.2",
            wait_until_starting=True,
        )
        print()
        print("EXPECTED: race control receives a BenchmarkFailure when the Rally daemon of a target host leaves during start-up")
        if isinstance(first, actor.BenchmarkFailure):
            print("OBSERVED: %s - the property holds" % describe(first))
        else:
            rc = 1
            print(
                "OBSERVED: race control is told nothing (waited %d s; nothing is in flight any more: the Dispatcher has cancelled its "
                "convention notifications as soon as StartNodes was handed out and the MechanicActor just keeps waiting for "
                "NodesStarted): the race hangs for as long as the node start-up takes / forever if the host is gone." % LISTEN_SECONDS
            )
            if isinstance(second, mechanic.EngineStarted):
                print(
                    "          When the start-up on the abandoned host finishes after all, race control is even told EngineStarted"
                    + (
                        ", although that host's nodes are stopped right away by the pending ActorExitRequest of the daemon shutdown "
                        "(launcher.stop() was called on 127.0.0.2)."
                        if stopped_again
                        else "."
                    )
                )
            else:
                print("          After the start-up finished race control was told: %s" % describe(second))
    finally:
        asys.shutdown()
        shutil.rmtree(workdir, ignore_errors=True)
    return rc


if __name__ == "__main__":
    if len(sys.argv) > 1 and sys.argv[1] == "remote":
        remote_daemon(sys.argv[2], int(sys.argv[3]), int(sys.argv[4]), sys.argv[5])
    else:
        sys.exit(main())
