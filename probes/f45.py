"""
C02 / f1: the client cap of a `parallel` element is ignored as soon as any other element of the
schedule uses more clients.

docs/track.rst ("parallel", property `clients`):
    "If you specify this property, Rally will only use as many clients as you have defined on the
     parallel element"
and the example with `"clients": 2` and three sub-tasks:
    "Rally will *not* run all three tasks in parallel because you specified that you want only two
     clients in total. Hence, Rally will first run "match-all" and "term" concurrently (with one client
     each). After they have finished, Rally will run "phrase" with one client."

The demo loads exactly that example (with `sleep` operations so that no Elasticsearch is needed) after a
preceding task that uses four clients, validates it against Rally's track schema, lets the real loader,
Allocator, calculate_worker_assignments, ClientAllocations and AsyncIoAdapter (with the real sleep runner)
process it and only fakes the Elasticsearch client factory.

Run: cd <checkout> && PYTHONPATH=<checkout> /venv/bin/python demo.py
"""
import asyncio
import json
import os
import sys
import threading
import time

import jsonschema

import esrally
from esrally import config
from esrally.client import context as client_context
from esrally.driver import driver, runner
from esrally.track import loader

SLEEP = 0.4
CAP = 2

def track_spec(with_wider_task):
    spec = json.loads(json.dumps(TRACK))
    if not with_wider_task:
        del spec["challenges"][0]["schedule"][0]
    return spec


TRACK = {
    "description": "capped parallel element after a wider task",
    "operations": [
        {"name": "warm", "operation-type": "sleep", "duration": 0.01},
        {"name": "match-all", "operation-type": "sleep", "duration": SLEEP},
        {"name": "term", "operation-type": "sleep", "duration": SLEEP},
        {"name": "phrase", "operation-type": "sleep", "duration": SLEEP},
    ],
    "challenges": [
        {
            "name": "default",
            "default": True,
            "schedule": [
                # any earlier (or later) element that needs more clients than the cap below
                {"operation": "warm", "clients": 4, "iterations": 1},
                # verbatim structure of the docs example "only two clients *in total*"
                {
                    "parallel": {
                        "iterations": 1,
                        "clients": CAP,
                        "tasks": [
                            {"operation": "match-all"},
                            {"operation": "term"},
                            {"operation": "phrase"},
                        ],
                    }
                },
            ],
        }
    ],
}


class FakeEs(client_context.RequestContextHolder):
    """No transport at all: the sleep runner only needs the (real) request context bookkeeping."""

    async def close(self):
        pass


class FakeEsClientFactory:
    def __init__(self, *args, **kwargs):
        pass

    def create_async(self, *args, **kwargs):
        return FakeEs()


class Hosts:
    all_hosts = {"default": [{"host": "127.0.0.1", "port": 9200}]}


def run(with_wider_task):
    TRACK = track_spec(with_wider_task)
    schema_file = os.path.join(os.path.dirname(esrally.__file__), "resources", "track-schema.json")
    with open(schema_file) as f:
        jsonschema.validate(TRACK, json.load(f))  # the track is legal
    t = loader.TrackSpecificationReader()("demo", TRACK, "/mappings")
    challenge = t.default_challenge
    parallel = challenge.schedule[-1]
    assert parallel.clients == CAP

    cfg = config.Config()
    cfg.add(config.Scope.application, "driver", "profiling", False)
    cfg.add(config.Scope.application, "driver", "assertions", False)
    cfg.add(config.Scope.application, "client", "hosts", Hosts())
    cfg.add(config.Scope.application, "client", "options", {"default": {}})
    runner.register_default_runners(cfg)
    driver.client.EsClientFactory = FakeEsClientFactory

    # --- what Driver.start_benchmark does ---------------------------------------------------------
    allocator = driver.Allocator(challenge.schedule)
    allocations = allocator.allocations
    assignments = driver.calculate_worker_assignments([{"host": "localhost", "cores": 1}], allocator.clients)
    (worker_clients,) = [w for a in assignments for w in a["workers"] if w]
    client_allocations = driver.ClientAllocations()
    contexts = {}
    for client_id in worker_clients:
        client_allocations.add(client_id, allocations[client_id])
        contexts[client_id] = driver.ClientContext(client_id=client_id, parent_worker_id=0)

    # --- what Worker.drive does: one allocation column after the other -------------------------------
    join_points_seen = 0
    rounds = []  # per column of the parallel element: [(client id, task name, total_clients)]
    elapsed = 0.0
    for idx in range(len(allocations[0])):
        current = client_allocations.tasks(idx)
        if len(current) == 0:
            continue
        if client_allocations.is_joinpoint(idx):
            join_points_seen += 1
            continue
        in_parallel_element = join_points_seen == len(challenge.schedule)
        sampler = driver.Sampler(start_timestamp=time.perf_counter())
        adapter = driver.AsyncIoAdapter(cfg, t, current, sampler, threading.Event(), threading.Event(), "continue", contexts, 0)
        start = time.perf_counter()
        adapter()
        if in_parallel_element:
            elapsed += time.perf_counter() - start
            rounds.append([(c.client_id, c.task.task.name, c.task.total_clients) for c in current])

    print("\n=== %s ===" % ("[4-client task, parallel(clients=2)]" if with_wider_task else "control: [parallel(clients=2)] alone"))
    print("allocation matrix:")
    for c, row in enumerate(allocations):
        print("  client %d: %s" % (c, [x.task.name if isinstance(x, driver.TaskAllocation) else x for x in row]))
    print("rounds of the parallel element (client id, task, TaskAllocation.total_clients):")
    for r in rounds:
        print("  ", r)
    print("wall clock time of the parallel element: %.2fs (one sleep lasts %.2fs)" % (elapsed, SLEEP))

    used_clients = {c for r in rounds for c, _, _ in r}
    max_concurrent = max(len(r) for r in rounds)
    claimed = {n for r in rounds for _, _, n in r}
    return used_clients, max_concurrent, claimed, len(rounds), elapsed


def main():
    used_clients, max_concurrent, claimed, rounds, elapsed = run(with_wider_task=False)
    assert len(used_clients) == CAP and max_concurrent == CAP and rounds == 2, "control: the cap is honoured if the element is alone"
    used_clients, max_concurrent, claimed, rounds, elapsed = run(with_wider_task=True)
    if len(used_clients) > CAP or max_concurrent > CAP:
        print(
            f"\nFAIL: expected the parallel element with \"clients\": {CAP} to be executed by {CAP} clients in total "
            f"(match-all and term concurrently, phrase afterwards, i.e. 2 rounds / ~{2 * SLEEP:.1f}s as documented in docs/track.rst "
            f"and as observed in the control run); observed {len(used_clients)} distinct clients {sorted(used_clients)} running "
            f"{max_concurrent} sub-tasks concurrently in {rounds} round(s) / {elapsed:.2f}s, while every TaskAllocation still claims "
            f"total_clients={sorted(claimed)}."
        )
        sys.exit(1)
    print("\nOK: the client cap of the parallel element is honoured")


if __name__ == "__main__":
    main()
