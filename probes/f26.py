"""
C03 / f1: a bulk task crashes with "float division by zero" when a worker's (co-located) client group is assigned
zero documents and the worker simulates more than one client.

Legal input: a corpus file with 2 documents, a bulk task with 8 clients, a load driver with 4 cores
(-> 4 workers with 2 clients each; this is exactly what driver.calculate_worker_assignments produces).

Everything is real rally code (Allocator, calculate_worker_assignments, ClientAllocations, AsyncIoAdapter.run, AsyncExecutor,
ScheduleHandle, BulkIndexParamSource, readers, bulk runner); only the Elasticsearch client factory is replaced by a recorder.
"""
import asyncio
import collections
import io as pyio
import json
import logging
import os
import shutil
import sys
import tempfile
import threading
from unittest import mock

from esrally import config, exceptions
from esrally.client.context import RequestContextHolder
from esrally.driver import driver, runner
from esrally.track import track
from esrally.utils import io

NUM_DOCS = 2
CLIENTS = 8
CORES = 4

sent = collections.Counter()


class RecordingEs(RequestContextHolder):
    """narrow fake of the async ES client: records the documents of each bulk body"""

    def __init__(self, client_id):
        self.client_id = client_id

    async def bulk(self, body=None, params=None, **kwargs):
        self.on_request_start()
        lines = body.split(b"\n")
        assert lines[-1] == b""
        for meta, doc in zip(lines[0:-1:2], lines[1:-1:2]):
            assert meta.startswith(b'{"index"'), meta
            sent[json.loads(doc)["n"]] += 1
        self.on_request_end()
        return pyio.BytesIO(b'{"took":1,"errors":false}')

    async def close(self):
        pass


class FakeFactory:
    def __init__(self, hosts, client_options, distribution_version=None, distribution_flavor=None):
        pass

    def create_async(self, api_key=None, client_id=None):
        return RecordingEs(client_id)


def main():
    logging.disable(logging.CRITICAL)
    tmp = tempfile.mkdtemp()
    try:
        data_file = os.path.join(tmp, "docs.json")
        with open(data_file, "wt", encoding="utf-8") as f:
            for i in range(NUM_DOCS):
                f.write('{"n": %d}\n' % i)
        with mock.patch("esrally.utils.console.info"), mock.patch("esrally.utils.console.println"):
            assert io.prepare_file_offset_table(data_file) == NUM_DOCS

        corpus = track.DocumentCorpus(
            "tiny",
            [track.Documents(source_format="bulk", document_file=data_file, number_of_documents=NUM_DOCS, target_index="idx")],
        )
        op = track.Operation("bulk", track.OperationType.Bulk.to_hyphenated_string(), params={"bulk-size": 1})
        task = track.Task("bulk", op, clients=CLIENTS)
        challenge = track.Challenge("default", default=True, schedule=[task])
        t = track.Track(name="demo", indices=[track.Index("idx")], corpora=[corpus], challenges=[challenge])

        cfg = config.Config()
        cfg.add(config.Scope.application, "driver", "profiling", False)
        cfg.add(config.Scope.application, "driver", "assertions", False)
        hosts = mock.Mock()
        hosts.all_hosts = {"default": [{"host": "localhost", "port": 9200}]}
        cfg.add(config.Scope.application, "client", "hosts", hosts)
        cfg.add(config.Scope.application, "client", "options", mock.MagicMock())

        runner.register_default_runners()

        allocations = driver.Allocator(challenge.schedule).allocations
        assignments = driver.calculate_worker_assignments([{"host": "localhost", "cores": CORES}], CLIENTS)
        client_contexts = {c: mock.Mock(api_key=None) for c in range(CLIENTS)}

        failures = []
        with mock.patch("esrally.client.EsClientFactory", FakeFactory):
            for worker_id, clients in enumerate(assignments[0]["workers"]):
                ca = driver.ClientAllocations()
                for c in clients:
                    ca.add(c, allocations[c])
                # column 0 is the initial join point, column 1 is the bulk task
                task_allocations = ca.tasks(1)
                sampler = driver.Sampler(start_timestamp=0)
                adapter = driver.AsyncIoAdapter(
                    cfg, t, task_allocations, sampler, threading.Event(), threading.Event(), "abort", client_contexts, worker_id
                )
                try:
                    asyncio.run(adapter.run())
                    print(f"worker {worker_id} (clients {clients}): finished normally")
                except exceptions.RallyError as e:
                    print(f"worker {worker_id} (clients {clients}): FAILED: {e.message if hasattr(e, 'message') else e}")
                    failures.append((worker_id, clients, e))

        expected = collections.Counter({i: 1 for i in range(NUM_DOCS)})
        print(f"documents sent: {dict(sent)}")
        if failures:
            print(
                f"\nEXPECTED: the bulk task with {CLIENTS} clients on {CORES} workers ingests each of the {NUM_DOCS} documents exactly once "
                f"and workers whose clients have no share of the corpus simply finish.\n"
                f"OBSERVED: {len(failures)} worker(s) abort the race: {failures[0][2]}"
            )
            return 1
        if sent != expected:
            print(f"EXPECTED every document once, OBSERVED {dict(sent)}")
            return 1
        print("OK: every document ingested exactly once and no worker failed")
        return 0
    finally:
        shutil.rmtree(tmp, ignore_errors=True)


if __name__ == "__main__":
    sys.exit(main())
