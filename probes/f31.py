"""
C20 / f1: the relative difference ("Diff %") is divided by the *signed* baseline, so for a negative
baseline its sign and colour are the opposite of the absolute difference on the same line, a race
compared with itself prints "-0.00%", and swapping baseline and contender does not flip it.

Runs the real esrally code end to end: two races are stored with the real FileRaceStore and compared
with reporter.compare(); only stdout is captured.  Negative values are legal stored results: e.g. the
ingest-pipeline telemetry stores end-minus-start counters (telemetry.IngestPipelineStats), which are
negative when a node of an externally provisioned cluster restarted during the race.

run: cd <checkout> && PYTHONPATH=<checkout> /venv/bin/python demo.py
"""
import contextlib
import csv
import datetime
import io
import os
import re
import sys
import tempfile

from esrally import config, metrics, reporter, track
from esrally.utils import console

COLOURS = {"31": "red", "32": "green", "39": "neutral"}
CELL = re.compile(r"^\x1b\[(\d+);1m(.*)\x1b\[0m$")


def make_cfg(root, report_format="csv"):
    cfg = config.Config()
    cfg.add(config.Scope.application, "system", "env.name", "demo")
    cfg.add(config.Scope.application, "node", "root.dir", root)
    cfg.add(config.Scope.application, "node", "rally.cwd", root)
    cfg.add(config.Scope.application, "reporting", "datastore.type", "in-memory")
    cfg.add(config.Scope.application, "reporting", "format", report_format)
    cfg.add(config.Scope.application, "reporting", "output.path", "")
    cfg.add(config.Scope.application, "reporting", "numbers.align", "decimal")
    return cfg


def store_race(cfg, race_id, results):
    """persists a race exactly as `esrally race` does (Race.as_dict -> race.json)"""
    cfg.add(config.Scope.application, "system", "race.id", race_id)
    race = metrics.Race(
        rally_version="2.12.0",
        rally_revision=None,
        environment_name="demo",
        race_id=race_id,
        race_timestamp=datetime.datetime(2024, 1, 1, 12, 0, 0),
        pipeline="benchmark-only",
        user_tags={},
        track=track.Track(name="demo-track"),
        track_params=None,
        challenge=track.Challenge(name="demo-challenge"),
        car="external",
        car_params=None,
        plugin_params=None,
    )
    race.add_results(metrics.GlobalStats(results))
    metrics.FileRaceStore(cfg).store_race(race)


def compare(cfg, baseline_id, contender_id):
    """returns {metric: (diff_text, diff_colour, pct_text, pct_colour)} parsed from the console output"""
    out = io.StringIO()
    with contextlib.redirect_stdout(out):
        reporter.compare(cfg, baseline_id, contender_id)
    text = out.getvalue()
    table = text[text.index("Metric,Task,Baseline,Contender,Diff,Unit,Diff %") :]
    rows = {}
    for row in list(csv.reader(io.StringIO(table)))[1:]:
        if len(row) != 7:
            continue
        d, p = CELL.match(row[4]), CELL.match(row[6])
        rows[row[0]] = (d.group(2), COLOURS[d.group(1)], p.group(2), COLOURS[p.group(1)], row[2], row[3])
    return rows


def main():
    console.init(quiet=False, assume_tty=True)  # what esrally's main() does; colours on
    if console.format is not console.RichFormat:
        print("this demo needs a colour capable TERM (TERM must not be 'dumb')")
        return 2
    root = tempfile.mkdtemp(prefix="c20-f1-")
    cfg = make_cfg(root)
    # node restarted during both races -> counters went backwards; the contender lost less
    store_race(cfg, "race-a", {"ingest_pipeline_cluster_count": -10, "ingest_pipeline_cluster_time": -4000, "ingest_pipeline_cluster_failed": -2})
    store_race(cfg, "race-b", {"ingest_pipeline_cluster_count": -5, "ingest_pipeline_cluster_time": 1000, "ingest_pipeline_cluster_failed": -2})

    problems = []
    ab = compare(cfg, "race-a", "race-b")
    ba = compare(cfg, "race-b", "race-a")
    aa = compare(cfg, "race-a", "race-a")

    def show(title, rows):
        print(title)
        for name, (d, dc, p, pc, b, c) in rows.items():
            print(f"  {name:30s} baseline={b:>6s} contender={c:>6s} Diff={d:>12s} [{dc:7s}]  Diff %={p:>10s} [{pc:7s}]")
            if {dc, pc} == {"red", "green"}:
                problems.append(
                    f"{title}: {name}: baseline {b} -> contender {c}: Diff is {d} ({dc}) but Diff % is {p} ({pc}); "
                    f"expected both cells to carry the same sign and colour"
                )

    show("baseline=race-a contender=race-b", ab)
    show("baseline=race-b contender=race-a (swapped)", ba)
    for name, (d, dc, p, pc, b, c) in ba.items():
        od, odc, op, opc, _, _ = ab[name]
        if dc != "neutral" and pc == opc:
            problems.append(f"{name}: swapping the races flipped Diff ({od} {odc} -> {d} {dc}) but Diff % stayed {opc} ({op} -> {p}); expected the colour to flip")
    print("baseline=race-a contender=race-a (self comparison)")
    for name, (d, dc, p, pc, b, c) in aa.items():
        print(f"  {name:30s} baseline={b:>6s} contender={c:>6s} Diff={d:>12s} [{dc:7s}]  Diff %={p:>10s} [{pc:7s}]")
        if p != "0.00%" or d != "0.00000":
            problems.append(f"{name}: a race compared with itself prints Diff={d} Diff %={p}; expected 0.00000 and 0.00%")

    if problems:
        print("\nFAIL - C20 violated (relative difference has the wrong direction for a negative baseline):")
        for p in problems:
            print("  * " + p)
        return 1
    print("\nOK - Diff and Diff % agree in sign and colour, flip on swap, and self comparison prints zero")
    return 0


if __name__ == "__main__":
    sys.exit(main())
