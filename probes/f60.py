"""
C18 / m17 demo: the start/end recorded for a composite request must span *all* HTTP requests that are issued on its
behalf - also when one of its concurrent streams fails.

A real RallyAsyncElasticsearch client (Rally's EsClientFactory -> Rally's aiohttp trace hooks) runs the real `composite`
runner through driver.execute_single() inside a top-level request context, exactly like AsyncExecutor does it
(on-error=continue). The composite has two concurrent streams followed by a final operation:

    stream "failing": GET /fail            -> HTTP 400 after 50 ms
    stream "slow"   : GET /slow/1 (300 ms), then GET /slow/2 (300 ms)
    then            : GET /after

The local HTTP server logs when each request arrives (same process, same clock). After the failure of the first stream the
composite is over and its sample is recorded; no request may be sent for it afterwards.
"""
import asyncio
import sys
import time

import aiohttp
from aiohttp import web

import esrally
from esrally import client
from esrally.driver import driver, runner

arrivals = []
# what the client itself sees on the wire: one entry [path, start, end] per HTTP request
wire = []


def wire_log():
    async def on_start(session, ctx, params):
        ctx.entry = [params.url.path, time.perf_counter(), None]
        wire.append(ctx.entry)

    async def on_end(session, ctx, params):
        ctx.entry[2] = time.perf_counter()

    trace_config = aiohttp.TraceConfig()
    trace_config.on_request_start.append(on_start)
    trace_config.on_request_end.append(on_end)
    trace_config.on_response_chunk_received.append(on_end)
    trace_config.on_request_exception.append(on_end)
    return trace_config


async def handler(request):
    arrivals.append((request.path, time.perf_counter()))
    if request.path.startswith("/fail"):
        await asyncio.sleep(0.05)
        return web.json_response({"error": {"type": "illegal_argument_exception"}, "status": 400}, status=400)
    if request.path.startswith("/slow"):
        await asyncio.sleep(0.3)
    return web.json_response({"took": 1}, headers={"X-elastic-product": "Elasticsearch"})


async def main():
    print("esrally imported from", esrally.__file__)
    app = web.Application()
    app.router.add_route("*", "/{tail:.*}", handler)
    app_runner = web.AppRunner(app)
    await app_runner.setup()
    site = web.TCPSite(app_runner, "127.0.0.1", 0)
    await site.start()
    port = site._server.sockets[0].getsockname()[1]

    runner.register_default_runners()
    es = client.EsClientFactory(
        hosts=[{"host": "127.0.0.1", "port": port}],
        client_options={"timeout": 5, "max_retries": 0},
        distribution_version="8.0.0",
    ).create_async(client_id=0)
    # an independent observer next to Rally's own trace hooks
    for node in es.transport.node_pool.all():
        node.trace_configs = list(node.trace_configs) + [wire_log()]

    params = {
        "name": "dashboard",
        "operation-type": "composite",
        "requests": [
            {"stream": [{"name": "failing", "operation-type": "raw-request", "method": "GET", "path": "/fail"}]},
            {
                "stream": [
                    {"name": "slow-1", "operation-type": "raw-request", "method": "GET", "path": "/slow/1"},
                    {"name": "slow-2", "operation-type": "raw-request", "method": "GET", "path": "/slow/2"},
                ]
            },
        ],
    }
    composite = runner.runner_for("composite")
    try:
        # this is what AsyncExecutor does for every request of a client
        with es.new_request_context() as request_context:
            total_ops, total_ops_unit, meta = await driver.execute_single(composite, {"default": es}, params, on_error="continue")
            request_start = request_context.request_start
            request_end = request_context.request_end
        sample_taken = time.perf_counter()
        assert meta["success"] is False and meta.get("http-status") == 400, meta
        # the client goes on with its schedule; give stray work a chance to show up
        await asyncio.sleep(1.0)
    finally:
        await es.close()
        await app_runner.cleanup()

    print(f"sample of the failed composite: start=0.000s end={request_end - request_start:.3f}s")
    for path, t in arrivals:
        print(f"  server received {path:8s} at {t - request_start:+.3f}s")
    paths = [p for p, _ in arrivals]
    assert "/fail" in paths and "/slow/1" in paths, paths
    late = [(p, t) for p, t in arrivals if t > max(request_end, sample_taken) + 0.05]
    assert not late, (
        f"the composite was recorded as [0.000s, {request_end - request_start:.3f}s] but requests were still sent on its behalf "
        f"afterwards: {[(p, round(t - request_start, 3)) for p, t in late]}"
    )
    for path, start, end in wire:
        print(f"  client sent     {path:8s} at {start - request_start:+.3f}s, ended at {end - request_start:+.3f}s")
    first_start = min(start for _, start, _ in wire)
    last_end = max(end for _, _, end in wire)
    assert abs(request_start - first_start) < 0.01, "recorded start is not the earliest start"
    assert last_end <= request_end + 0.05, (
        f"the latest end of the composite's HTTP requests is {last_end - request_start:.3f}s "
        f"but its recorded end is {request_end - request_start:.3f}s"
    )
    print("OK")


if __name__ == "__main__":
    try:
        asyncio.run(main())
    except AssertionError as e:
        print("FAILED:", e)
        sys.exit(1)
