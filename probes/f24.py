"""
C14 / f2: an offset-table build that does not finish (Ctrl-C, or an exception while reading the data) leaves the unfinished
table under its final name; the next corpus preparation trusts it (mtime newer than the data file), so it neither rebuilds
the table nor verifies the line count and reports a truncated document file as ready.

Initial state for both variants (a legal state per the property: "partial ... files", "a crash in an earlier run",
"undeclared size"):
  * the track declares documents.json.gz with compressed-bytes and document-count but without the optional uncompressed-bytes
  * documents.json.gz is complete on disk
  * documents.json is a PARTIAL file: the first k * 100 KiB of the decompressed stream, which is what
    io._do_decompress_manually_with_lib (100 KiB writes straight to the final name) leaves when a run is interrupted.

control    an uninterrupted preparation rejects this state: DataError "Expected [200000] lines but got [...]".
variant 1  (no fault injected at all) the partial file happens to end inside a multi-byte UTF-8 character.
           run 1: io.prepare_file_offset_table raises UnicodeDecodeError -> documents.json.offset stays behind.
           run 2: same call, same files -> returns normally.
variant 2  the partial file ends at a character boundary. A real SIGINT (Ctrl-C) is delivered while run 1 builds the table
           (slow for real corpora, so users do press Ctrl-C here) -> KeyboardInterrupt, documents.json.offset stays behind.
           run 2: returns normally.

Expected: every preparation of this state fails with an explicit error (as the control does), or repairs the file.
Observed: the second preparation returns successfully although documents.json is truncated.
"""
import gzip
import os
import random
import shutil
import signal
import sys
import tempfile
import time

from esrally import exceptions
from esrally.track import loader, track
from esrally.utils import io

LINES = 200_000
CHUNK = 100 * 1024  # write size of io._do_decompress_manually_with_lib


def corpus():
    rnd = random.Random(42)
    return "".join('{"id": %d, "name": "%s"}\n' % (i, "é" * rnd.randint(1, 20)) for i in range(LINES)).encode("utf-8")


def initial_state(data_root, full, cut):
    os.makedirs(data_root)
    archive = os.path.join(data_root, "documents.json.gz")
    with gzip.open(archive, "wb") as f:
        f.write(full)
    doc = os.path.join(data_root, "documents.json")
    with open(doc, "wb") as f:
        f.write(full[:cut])
    an_hour_ago = time.time() - 3600
    os.utime(archive, (an_hour_ago - 60, an_hour_ago - 60))
    os.utime(doc, (an_hour_ago, an_hour_ago))  # the interrupted earlier run
    return track.Documents(
        source_format=track.Documents.SOURCE_FORMAT_BULK,
        document_file="documents.json",
        document_archive="documents.json.gz",
        base_url=None,
        number_of_documents=LINES,
        compressed_size_in_bytes=os.path.getsize(archive),
        uncompressed_size_in_bytes=None,  # "uncompressed-bytes" is optional
    )


def prepare(doc_set, data_root):
    p = loader.DocumentSetPreparator("demo", loader.Downloader(offline=True, test_mode=False), loader.Decompressor())
    try:
        p.prepare_document_set(doc_set, data_root)
        return "returned normally"
    except KeyboardInterrupt:
        print()  # rally's console output has no trailing newline at this point
        return "KeyboardInterrupt"
    except BaseException as e:
        print()
        return f"{type(e).__name__}: {str(e)[:110]}"


def lines_in(path):
    with open(path, "rb") as f:
        return sum(1 for _ in f)


def main():
    full = corpus()
    # interruption points of the earlier decompression: multiples of the 100 KiB write size, a bit past half of the file
    k0 = len(full) // 2 // CHUNK
    mid_char = next(k * CHUNK for k in range(k0, k0 + 50) if full[k * CHUNK] & 0xC0 == 0x80)
    char_boundary = next(k * CHUNK for k in range(k0, k0 + 50) if full[k * CHUNK] & 0xC0 != 0x80)
    work = tempfile.mkdtemp(prefix="c14-f2-")
    failures = []
    try:
        # control
        root = os.path.join(work, "control")
        ds = initial_state(root, full, char_boundary)
        control = prepare(ds, root)
        print(f"control   (uninterrupted)         : {control}")
        assert control.startswith("DataError"), "control is expected to be rejected with a DataError"

        # variant 1: the build itself fails
        root = os.path.join(work, "v1")
        ds = initial_state(root, full, mid_char)
        run1 = prepare(ds, root)
        run2 = prepare(ds, root)
        print(f"variant 1 run 1                   : {run1}")
        print(f"variant 1 run 2 (nothing changed) : {run2}")
        if run2 == "returned normally":
            failures.append(
                f"variant 1: expected run 2 to fail like run 1 / the control (document file has "
                f"{lines_in(os.path.join(root, 'documents.json'))} of {LINES} lines, {mid_char} of {len(full)} bytes); "
                f"observed: prepare_document_set returned normally, trusting the table left behind by the failed build"
            )

        # variant 2: Ctrl-C while the table is being built
        root = os.path.join(work, "v2")
        ds = initial_state(root, full, char_boundary)
        original = io.FileOffsetTable.add_offset

        def add_offset_then_ctrl_c(self, line_number, offset):
            original(self, line_number, offset)
            os.kill(os.getpid(), signal.SIGINT)  # the user presses Ctrl-C after the first 50000 lines

        io.FileOffsetTable.add_offset = add_offset_then_ctrl_c
        try:
            run1 = prepare(ds, root)
        finally:
            io.FileOffsetTable.add_offset = original
        run2 = prepare(ds, root)
        print(f"variant 2 run 1 (Ctrl-C in build) : {run1}")
        print(f"variant 2 run 2                   : {run2}")
        if run2 == "returned normally":
            failures.append(
                f"variant 2: expected run 2 to reject the truncated file like the control (document file has "
                f"{lines_in(os.path.join(root, 'documents.json'))} of {LINES} lines); observed: prepare_document_set returned "
                f"normally, trusting the partial table {open(os.path.join(root, 'documents.json.offset')).read().split()} "
                f"left behind by the interrupted build"
            )
    finally:
        shutil.rmtree(work, ignore_errors=True)

    if failures:
        print("FAIL: corpus preparation reported a truncated document file as ready")
        for f in failures:
            print("  " + f)
        return 1
    print("OK")
    return 0


if __name__ == "__main__":
    sys.exit(main())
