"""
C13 / F2: provisioner.cleanup() does not remove a data path that is a symbolic link to a directory
(e.g. --car-params="data_paths:'/opt/elasticsearch'" where /opt/elasticsearch -> /mnt/nvme0/es).

Real rally code: opts.to_dict, team.load_car, ElasticsearchInstaller, BareProvisioner.prepare (io.decompress, _apply_config,
Jinja) and provisioner.cleanup, called exactly as Mechanic.stop_engine / mechanic.stop call it. The only stand-in is the
Elasticsearch process itself: we write one file below the configured path.data, as a running node would.
"""
import logging
import os
import shutil
import sys
import tarfile
import tempfile

from esrally.mechanic import provisioner, team
from esrally.utils import opts


def write(root, rel, content):
    p = os.path.join(root, rel)
    os.makedirs(os.path.dirname(p), exist_ok=True)
    with open(p, "w", encoding="utf-8") as f:
        f.write(content)
    return p


def tree(path):
    return sorted(os.path.relpath(os.path.join(r, f), path) for r, _, fs in os.walk(path) for f in fs)


def run(tmp):
    team_dir = os.path.join(tmp, "team")
    write(team_dir, "cars/v1/defaults.ini", "[meta]\ndescription=defaults\ntype=car\n\n[config]\nbase=vanilla\n\n[variables]\nheap_size=1g\n")
    write(team_dir, "cars/v1/vanilla/config.ini", "[variables]\nruntime.jdk=17\nruntime.jdk.bundled=true\n")
    write(team_dir, "cars/v1/vanilla/templates/config/elasticsearch.yml", "node.name: {{node_name}}\npath.data: {{data_paths|join(',')}}\n")

    dist_src = os.path.join(tmp, "dist-src")
    write(dist_src, "elasticsearch-9.9.9/config/elasticsearch.yml", "# pre-bundled\n")
    dist = os.path.join(tmp, "elasticsearch-9.9.9.tar.gz")
    with tarfile.open(dist, "w:gz") as t:
        t.add(os.path.join(dist_src, "elasticsearch-9.9.9"), arcname="elasticsearch-9.9.9")

    # the big disk, and the conventional path the admin has linked to it
    big_disk = os.path.join(tmp, "mnt", "nvme0", "es")
    os.makedirs(big_disk)
    data_path = os.path.join(tmp, "opt", "elasticsearch")
    os.makedirs(os.path.dirname(data_path))
    os.symlink(big_disk, data_path)

    # esrally race ... --car=defaults --car-params="data_paths:'<data_path>'"      (docs/command_line_reference.rst, car-params)
    car = team.load_car(team_dir, opts.csv_to_list("defaults"), opts.to_dict(f"data_paths:'{data_path}'"))

    def race(race_id, preserve_install):
        node_root = os.path.join(tmp, "races", race_id, "rally-node-0")
        es_installer = provisioner.ElasticsearchInstaller(
            car=car, java_home=None, node_name="rally-node-0", cluster_name="rally-benchmark", node_root_dir=node_root,
            all_node_ips=["127.0.0.1"], all_node_names=["rally-node-0"], ip="127.0.0.1", http_port=39200,
        )
        node_config = provisioner.BareProvisioner(es_installer, [], distribution_version="9.9.9").prepare({"elasticsearch": dist})
        with open(os.path.join(node_config.binary_path, "config", "elasticsearch.yml"), encoding="utf-8") as f:
            configured = dict(l.split(": ", 1) for l in f.read().splitlines() if ": " in l)["path.data"]
        assert configured == data_path and node_config.data_paths == [data_path], (configured, node_config.data_paths)
        found_at_start = tree(configured)
        # --- stand-in for the running Elasticsearch node: it writes below path.data
        write(configured, f"nodes/0/indices/{race_id}/segments_1", "lucene")
        # --- Mechanic.stop_engine():
        provisioner.cleanup(preserve=preserve_install, install_dir=node_config.binary_path, data_paths=node_config.data_paths)
        return node_config, found_at_start

    logging.disable(logging.CRITICAL)  # cleanup logs the swallowed OSError with a stack trace; keep the demo output readable
    node_config, _ = race("race-1", preserve_install=False)
    install_gone = not os.path.exists(node_config.binary_path)
    left_over = tree(big_disk)
    print(f"after race-1 (preserve-install NOT set): installation removed: {install_gone}; files left below data path {data_path}: {left_over}")

    _, found_at_start = race("race-2", preserve_install=False)
    print(f"race-2: files already present in path.data when the freshly provisioned node is about to start: {found_at_start}")

    if left_over or found_at_start or not install_gone:
        print("VIOLATION (C13: cleanup removes the installation and all data paths unless preserve-install is set):")
        print("  expected: no file of race-1 survives below the configured data path")
        print(f"  observed: {left_over} survived; shutil.rmtree refuses symbolic links, cleanup swallows the OSError and carries on")
        return 1
    print("OK: data path wiped.")
    return 0


def main():
    tmp = tempfile.mkdtemp(prefix="c13-f2-")
    try:
        return run(tmp)
    finally:
        logging.disable(logging.NOTSET)
        shutil.rmtree(tmp, ignore_errors=True)


if __name__ == "__main__":
    sys.exit(main())
