# F10 (known finding, C19): bulk fast path vs detailed path on an item with status 201 but a failed replica shard, errors=false.
import io, json
from esrally.driver import runner
resp = {"took": 3, "errors": False, "items": [{"index": {"_index": "i", "_id": "1", "status": 201, "result": "created",
        "_shards": {"total": 2, "successful": 1, "failed": 1}}}]}
b = runner.BulkIndex()
fast = b.simple_stats(1, "docs", io.BytesIO(json.dumps(resp).encode()))
det = b.detailed_stats({"body": ["{}", "{}"], "action-metadata-present": True}, resp)
print("fast    :", fast["success"], fast["success-count"], fast["error-count"])
print("detailed:", det["success"], det["success-count"], det["error-count"])
assert (fast["success"], fast["success-count"], fast["error-count"]) == (det["success"], det["success-count"], det["error-count"]), "fast and detailed path disagree"
