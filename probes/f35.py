"""
C10 / f1: corpus-level defaults `target-index`, `target-data-stream` and `target-type` are dropped
when the track has no `indices` / `data-streams` section.

docs/track.rst (corpora): "To avoid repetition, you can specify default values on document corpus level for the
following properties: base-url, source-format, includes-action-and-meta-data, target-index, target-type,
target-data-stream".

Run:  cd <checkout> && PYTHONPATH=<checkout> /venv/bin/python demo.py
"""
import json
import os
import shutil
import sys
import tempfile

import esrally
from esrally import config
from esrally.track import loader


def load(files):
    d = tempfile.mkdtemp(prefix="c10-f1-")
    try:
        for name, content in files.items():
            with open(os.path.join(d, name), "w", encoding="utf-8") as f:
                f.write(json.dumps(content, indent=2))
        cfg = config.Config()
        cfg.add(config.Scope.application, "node", "rally.root", os.path.dirname(esrally.__file__))
        cfg.add(config.Scope.application, "track", "params", {})
        return loader.TrackFileReader(cfg).read("demo", os.path.join(d, "track.json"), d)
    finally:
        shutil.rmtree(d, ignore_errors=True)


def targets(files):
    """-> ("loaded", [(target_index, target_data_stream, target_type), ...]) or ("rejected", message)"""
    try:
        t = load(files)
    except Exception as e:  # pylint: disable=broad-except
        return "rejected", f"{type(e).__name__}: {e}"
    return "loaded", [(d.target_index, d.target_data_stream, d.target_type) for c in t.corpora for d in c.documents]


SCHEDULE = [{"operation": {"operation-type": "bulk", "bulk-size": 100}}]
TEMPLATE_FILE = {"index_patterns": ["logs-*"], "settings": {}}
# a track that creates its indices via an index template (like e.g. http_logs / logging tracks): no "indices" section
TEMPLATES = [{"name": "logs", "index-pattern": "logs-*", "template": "tpl.json"}]

failures = []


def expect(label, observed, expected):
    ok = observed == expected
    print(f"[{'ok' if ok else 'FAIL'}] {label}\n       expected: {expected}\n       observed: {observed}")
    if not ok:
        failures.append(label)


# --- reference: the very same target written on the *documents* entry is honoured ------------------------------------
expect(
    "target-index on the documents entry, track without 'indices' section",
    targets(
        {
            "tpl.json": TEMPLATE_FILE,
            "track.json": {
                "templates": TEMPLATES,
                "corpora": [{"name": "c", "documents": [{"source-file": "d.json", "document-count": 10, "target-index": "logs-1"}]}],
                "schedule": SCHEDULE,
            },
        }
    ),
    ("loaded", [("logs-1", None, None)]),
)

# --- (a) documented corpus-level default target-index ------------------------------------------------------------------
expect(
    "(a) corpus-level default target-index, track without 'indices' section",
    targets(
        {
            "tpl.json": TEMPLATE_FILE,
            "track.json": {
                "templates": TEMPLATES,
                "corpora": [{"name": "c", "target-index": "logs-1", "documents": [{"source-file": "d.json", "document-count": 10}]}],
                "schedule": SCHEDULE,
            },
        }
    ),
    ("loaded", [("logs-1", None, None)]),
)

# --- (b) documented corpus-level default target-data-stream ------------------------------------------------------------
expect(
    "(b) corpus-level default target-data-stream, track without 'data-streams' section",
    targets(
        {
            "track.json": {
                "corpora": [
                    {
                        "name": "c",
                        "target-data-stream": "logs-ds",
                        "documents": [
                            {"source-file": "d1.json", "document-count": 10},
                            {"source-file": "d2.json", "document-count": 10},
                        ],
                    }
                ],
                "schedule": SCHEDULE,
            },
        }
    ),
    ("loaded", [(None, "logs-ds", None), (None, "logs-ds", None)]),
)

# --- (c) the third corpora example of docs/track.rst, verbatim (corpus-level target-type) -------------------------------
expect(
    "(c) docs/track.rst example 'default values on document corpus level' (target-type: docs), no 'indices' section",
    targets(
        {
            "track.json": {
                "corpora": [
                    {
                        "name": "http_logs",
                        "base-url": "http://benchmarks.elasticsearch.org.s3.amazonaws.com/corpora/http_logs",
                        "target-type": "docs",
                        "documents": [
                            {"source-file": "documents-181998.json.bz2", "document-count": 2708746, "target-index": "logs-181998"},
                            {"source-file": "documents-191998.json.bz2", "document-count": 9697882, "target-index": "logs-191998"},
                        ],
                    }
                ],
                "schedule": SCHEDULE,
            },
        }
    ),
    ("loaded", [("logs-181998", None, "docs"), ("logs-191998", None, "docs")]),
)

if failures:
    print(
        "\nC10 VIOLATED: the corpora of the loaded track are not those written in the file. The corpus-level defaults "
        "target-index / target-data-stream / target-type are only read when the track ALSO has an 'indices' / 'data-streams' "
        "section; otherwise they are dropped: the valid track is rejected (with a misleading 'a target-data-stream is required') "
        "or, for target-type, loaded with the value silently missing."
    )
    sys.exit(1)
print("all fine")
