"""
C15 / F59: RallyRepository.update with a configured remote falls back to the LOCAL branch list when no REMOTE branch
qualifies ("Could not find tracks remotely ... Trying to find tracks locally"). In a fresh clone the local list is
just the default branch, so versions.best_match(["master"], "6.8.0") sees no versioned branch at all, takes 6 > -1 as
"newer than every versioned branch" and answers "master" - although the repository (its remote branches 7, 8) clearly
has versioned branches newer than 6.8.0. Documented: master only when the version is newer than every versioned
branch or unknown; if nothing qualifies an error is reported (after trying a matching v-tag). Here a v6 tag exists
and is never tried; without the tag no error is reported either.

Run:  cd <checkout> && PYTHONPATH=<checkout> /venv/bin/python probes/f59.py
"""
import logging
import os
import shutil
import subprocess
import sys
import tempfile

from esrally.utils import git, repo, versions

ENV = {
    **os.environ,
    "GIT_AUTHOR_NAME": "t",
    "GIT_AUTHOR_EMAIL": "t@example.org",
    "GIT_COMMITTER_NAME": "t",
    "GIT_COMMITTER_EMAIL": "t@example.org",
    "GIT_CONFIG_GLOBAL": "/dev/null",
    "GIT_CONFIG_SYSTEM": "/dev/null",
}
os.environ.update(ENV)


def sh(cwd, *args):
    subprocess.run(["git", "-C", cwd, *args], check=True, capture_output=True, env=ENV)


def make_upstream(root, name, branches, tags=()):
    d = os.path.join(root, name)
    os.makedirs(d)
    sh(d, "init", "-q", "-b", "master")
    with open(os.path.join(d, "marker.txt"), "w") as f:
        f.write("master")
    sh(d, "add", ".")
    sh(d, "commit", "-qm", "initial")
    for b in branches:
        sh(d, "checkout", "-q", "-b", b, "master")
        with open(os.path.join(d, "marker.txt"), "w") as f:
            f.write(b)
        sh(d, "commit", "-qm", b, "-a")
    for tag, at in tags:
        sh(d, "tag", tag, at)
    sh(d, "checkout", "-q", "master")
    return d


def marker(d):
    with open(os.path.join(d, "marker.txt")) as f:
        return f.read()


logging.disable(logging.CRITICAL)
failures = []


def check(label, ok, observed):
    print(f"{label}\n    observed: {observed}\n    -> {'ok' if ok else 'VIOLATION'}")
    if not ok:
        failures.append(label)


root = tempfile.mkdtemp(prefix="c15-f59-")
try:
    for case, tags in (("A (upstream has tag v6)", [("v6", "7")]), ("B (no tag)", [])):
        sub = os.path.join(root, case[0])
        os.makedirs(sub)
        up = make_upstream(sub, "upstream", ["7", "8"], tags=tags)
        r = repo.RallyRepository(remote_url=up, root_dir=sub, repo_name="clone", resource_name="tracks", offline=False)
        d = os.path.join(sub, "clone")
        remote_branches = sorted(git.branches(d, remote=True))
        local_branches = sorted(git.branches(d, remote=False))
        try:
            r.update("6.8.0")
            observed = f"uses marker {marker(d)!r} (remote branches {remote_branches}, local branches {local_branches})"
            used_master = marker(d) == "master"
        except Exception as e:  # pylint: disable=broad-except
            observed = f"{type(e).__name__}: {e}"
            used_master = False
        check(
            f"{case}: repository with branches master, 7, 8; ES 6.8.0 is older than every versioned branch -> master must NOT be selected "
            f"(matching tag or an error)",
            not used_master,
            observed,
        )
    print("pure function: best_match(['master','7','8'], '6.8.0') =", versions.best_match(["master", "7", "8"], "6.8.0"),
          "; best_match(['master'], '6.8.0') =", versions.best_match(["master"], "6.8.0"))
finally:
    shutil.rmtree(root, ignore_errors=True)

if failures:
    print(f"\nFAIL: {len(failures)} violation(s)")
    sys.exit(1)
print("\nPASS")
