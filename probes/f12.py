from esrally.driver import driver
from esrally import metrics
from esrally.track import track
op = track.Operation("op", "bulk", params={})
task = track.Task("T", op)
def sample(t):
    # one op of 5000 docs finishing at absolute time t (task started at absolute 0)
    return driver.Sample(0, t, t, 0, task, metrics.SampleType.Normal, None, 0.1, 0.1, 0.1, None, 10, "docs", t, None)
def run(batches):
    calc = driver.ThroughputCalculator()
    out = []
    for b in batches:
        r = calc.calculate([sample(t) for t in b])
        out += r.get(task, [])
    return [round(x[3], 3) for x in out]
times = [0.1, 0.3, 0.5, 0.7, 1.0, 2.0]
one = run([times])
cut = run([[t] for t in times])
print("single batch:", one)
print("one sample per batch:", cut)
# the last value is total ops / elapsed = 60 docs / 2.0 s = 30 whatever the batching
assert one[-1] == 30.0, one
assert cut[-1] == 30.0, f"batching changed the reported throughput: {cut[-1]} (ops counted more than once)"
