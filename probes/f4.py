from esrally import config
from esrally.track import loader, track
cfg = config.Config()
cfg.add(config.Scope.application, "track", "exclude.tasks", ["type:bulk"])
op = track.Operation("b", "bulk", params={}); op2 = track.Operation("s", "search", params={})
par = track.Parallel([track.Task("b1", op), track.Task("b2", op)])
ch = track.Challenge("c", schedule=[track.Task("s1", op2), par, track.Task("s2", op2)])
t = track.Track("t", challenges=[ch])
loader.TaskFilterTrackProcessor(cfg).on_after_load_track(t)
print([str(x) for x in ch.schedule])
for e in ch.schedule:
    assert not (isinstance(e, track.Parallel) and len(e.tasks) == 0), "empty parallel element left in the schedule"
assert [str(x) for x in ch.schedule] == ["s1", "s2"]
