# F17 (C19): a paginated search that stops at its page limit leaves `search_after` (composite: `after`) in the operation body, which the parameter source hands out again:
# the first page of the NEXT iteration is sent with the previous iteration's last cursor. run: PYTHONPATH=/repo /venv/bin/python probes/f17.py
import asyncio, io, json, sys
sys.path.insert(0, "/repo")
from esrally.driver import runner
from esrally.track import params, track

class FakeEs:
    def __init__(self): self.bodies = []
    def return_raw_response(self): pass
    def options(self, **kw): return self
    async def perform_request(self, method, path, params=None, body=None, headers=None):
        self.bodies.append(json.loads(json.dumps(body)))
        after = (body or {}).get("search_after")
        start = 0 if after is None else after[0] + 1
        hits = [{"_id": str(i), "sort": [i]} for i in range(start, start + 2)]
        return io.BytesIO(json.dumps({"took": 1, "timed_out": False, "hits": {"total": {"value": 10, "relation": "eq"}, "hits": hits}}).encode())

t = track.Track(name="t", indices=[track.Index(name="idx", body=None, types=[])])
src = params.SearchParamSource(t, {"operation-type": "paginated-search", "index": "idx", "pages": 2, "results-per-page": 2,
                                   "body": {"query": {"match_all": {}}, "sort": [{"n": "asc"}]}}, operation_name="search")
q = runner.Query()
es = FakeEs()
async def main():
    for it in range(2):                      # two iterations of the same task: each must start at page 1
        p = src.params(); p.update({"operation-type": "paginated-search"})   # what ScheduleHandle.params_with_operation_type does
        await q(es, p)
asyncio.run(main())
firsts = [es.bodies[0].get("search_after"), es.bodies[2].get("search_after")]
print("search_after sent with the FIRST page of iteration 1 and 2:", firsts)
if firsts != [None, None]:
    raise SystemExit("FAIL: the second iteration of the task starts from the first iteration's last cursor (stale search_after left in the operation's body)")
