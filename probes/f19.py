# F19 (C20): ComparisonReporter._report_transform_processing_times tests only the BASELINE for absent (None) transform statistics and then iterates the contender's lists:
# comparing a race that has them with one stored without them crashes (TypeError), the opposite order works. run: PYTHONPATH=/repo /venv/bin/python probes/f19.py
import sys
sys.path.insert(0, "/repo")
from esrally import config, metrics, reporter
new = {"op_metrics": [], "total_transform_processing_times": [{"id": "t1", "mean": 10, "unit": "ms"}], "total_transform_index_times": [{"id": "t1", "mean": 5, "unit": "ms"}],
       "total_transform_search_times": [{"id": "t1", "mean": 3, "unit": "ms"}], "total_transform_throughput": [{"id": "t1", "mean": 100, "unit": "docs/s"}]}
old = {"op_metrics": []}          # a race stored before transform statistics existed (or by a track without transforms in an older Rally): the keys are absent -> None
cfg = config.Config()
cfg.add(config.Scope.application, "reporting", "format", "markdown")
cfg.add(config.Scope.application, "reporting", "output.path", None)
cfg.add(config.Scope.application, "reporting", "numbers.align", "right")
cfg.add(config.Scope.application, "node", "rally.cwd", ".")
r = reporter.ComparisonReporter(cfg)
r.plain = True
for label, b, c in (("baseline old, contender new", old, new), ("baseline new, contender old", new, old)):
    try:
        lines = r._report_transform_processing_times(metrics.GlobalStats(b), metrics.GlobalStats(c))
        print(f"{label}: {len(lines)} line(s)")
    except TypeError as e:
        print(f"{label}: CRASH TypeError: {e}")
        raise SystemExit("FAIL: comparing two stored races crashes when only the contender lacks the transform statistics (the None guard covers the baseline only)")
