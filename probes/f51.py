"""
C06 / f3: when the samples of two workers do not reach the driver in lock-step (each worker flushes its sampler on its own 5 s
timer, the driver post-processes on its own 30 s timer), a post-processing batch contains the samples of worker 0 up to time T0
but those of worker 1 only up to T1 < T0. ThroughputCalculator nevertheless closes all buckets up to T0, i.e. the values it
reports for (T1, T0] divide the operations of *one* worker by the elapsed time. The late samples are added to the running
count afterwards (nothing is counted twice), but the values already stored are wrong and stay wrong; if the task ends before
another bucket is completed, the late operations never show up in any throughput value.

The sample streams below are synthetic (driver.Sample objects, exactly what a worker sends), everything else is real rally
code: SamplePostprocessor -> ThroughputCalculator -> InMemoryMetricsStore -> get_stats (= "Min Throughput" of the report).

Run:  cd <checkout> && PYTHONPATH=<checkout> /venv/bin/python demo.py
"""
import datetime
import sys

from esrally import config, metrics, track
from esrally.driver import driver

T0 = 1_700_000_000.0  # wall clock time at which the task starts
DOCS_PER_BULK = 1000
SERVICE_TIME = 0.1  # every client completes one bulk request every 100 ms -> 10,000 docs/s per client, 20,000 docs/s in total
TASK = track.Task("bulk-index", track.Operation("bulk-index", track.OperationType.Bulk.to_hyphenated_string()), clients=2)


def client_samples(client_id, duration):
    samples = []
    for i in range(int(round(duration / SERVICE_TIME))):
        request_start = i * SERVICE_TIME  # relative to the start of the task
        request_end = request_start + SERVICE_TIME
        samples.append(
            driver.Sample(
                client_id,
                T0 + request_start,  # absolute_time
                100.0 + request_start,  # request_start (perf_counter based)
                100.0,  # task_start
                TASK,
                metrics.SampleType.Normal,
                {"success": True},
                SERVICE_TIME,
                SERVICE_TIME,
                SERVICE_TIME,
                None,  # the runner does not supply a throughput
                DOCS_PER_BULK,
                "docs",
                request_end,  # time_period
                None,
            )
        )
    return samples


def new_store():
    cfg = config.Config()
    cfg.add(config.Scope.application, "system", "env.name", "unittest")
    cfg.add(config.Scope.application, "track", "params", {})
    store = metrics.InMemoryMetricsStore(cfg)
    store.open("race-id", datetime.datetime(2024, 1, 1), "unittest", "default", "defaults", create=True)
    return store


def post_process(batches):
    store = new_store()
    pp = driver.SamplePostprocessor(store, downsample_factor=1, track_meta_data={}, challenge_meta_data={})
    for batch in batches:
        pp(batch)
    values = [(d["@timestamp"] / 1000 - T0, d["value"]) for d in store.docs if d["name"] == "throughput"]
    return values, store.get_stats("throughput", task="bulk-index")


def completed_until(samples, t):
    """number of docs of all requests that were issued up to ``t`` (the calculator's own notion of 'completed until t')"""
    return sum(s.total_ops for s in samples if s.absolute_time - T0 <= t + 1e-9)


def scenario(name, duration, w0_first_batch_until, w1_first_batch_until):
    w0 = client_samples(0, duration)
    w1 = client_samples(1, duration)
    everything = w0 + w1
    # reference: the driver happened to see everything in one batch
    ref_values, ref_stats = post_process([everything])
    # skewed arrival: at the driver's post-processing tick worker 0 has delivered more than worker 1
    first = [s for s in w0 if s.absolute_time - T0 < w0_first_batch_until] + [s for s in w1 if s.absolute_time - T0 < w1_first_batch_until]
    first_ids = {id(s) for s in first}
    second = [s for s in everything if id(s) not in first_ids]
    values, stats = post_process([first, second])

    print(f"--- {name}")
    print(f"    one batch : {len(ref_values)} values, min {ref_stats['min']:.0f} docs/s, max {ref_stats['max']:.0f} docs/s, last value at t={ref_values[-1][0]:.1f}s: {ref_values[-1][1]:.0f}")
    print(f"    two batches (worker 1 lags by {w0_first_batch_until - w1_first_batch_until:.0f}s at the cut): {len(values)} values, "
          f"min {stats['min']:.0f} docs/s, max {stats['max']:.0f} docs/s, last value at t={values[-1][0]:.1f}s: {values[-1][1]:.0f}")
    problems = []
    start = -SERVICE_TIME  # ThroughputCalculator: start_time = absolute_time - time_period of the first sample
    # "no matter how the driver happened to batch": every value must be the one that is reported when the driver sees everything at once
    # (which in turn is <docs of all requests issued until t> / <elapsed time>, up to one request of the other client at the same instant)
    reference = {round(t, 3): v for t, v in ref_values}
    worst = None
    for t, v in values:
        expected = reference.get(round(t, 3))
        if expected is None:
            problems.append(f"{name}: a value is reported for t={t:.1f}s only in the two-batch run")
            continue
        err = (v - expected) / expected
        if worst is None or abs(err) > abs(worst[2]):
            worst = (t, v, err, expected)
    t, v, err, expected = worst
    if abs(err) > 0.01:
        problems.append(
            f"{name}: the value reported for t={t:.1f}s is {v:.0f} docs/s although {completed_until(everything, t)} docs had been completed by "
            f"then in {t - start:.1f}s; expected {expected:.0f} docs/s as in the single-batch run ({err:+.1%}); "
            f"'Min Throughput' becomes {stats['min']:.0f} instead of {ref_stats['min']:.0f} docs/s"
        )
    reported_total = values[-1][1] * (values[-1][0] - start)
    total = sum(s.total_ops for s in everything)
    if reported_total < 0.95 * total:
        problems.append(
            f"{name}: the last throughput value of the task accounts for {reported_total:.0f} docs, the task completed {total} docs "
            f"({total - reported_total:.0f} docs of the lagging worker never appear in any throughput value); single batch: "
            f"{ref_values[-1][1] * (ref_values[-1][0] - start):.0f}"
        )
    return problems


def main():
    problems = []
    # A: a 60 s task; at the driver's 30 s tick worker 0's flush of second 30 has arrived, worker 1's has not (its last one was at 25 s)
    problems += scenario("A (mid-task dip)", 60.0, 30.0, 25.0)
    # B: a 30 s task; worker 0 has already delivered everything when the driver's tick fires, worker 1's final flush arrives afterwards
    problems += scenario("B (task ends, late samples never reported)", 30.0, 30.0, 25.0)
    if problems:
        print("\nVIOLATION of C06 (reported throughput == operations completed since task start / elapsed time, for every batching,"
              " out-of-order arrival across workers included):")
        for p in problems:
            print("  - " + p)
        sys.exit(1)
    print("OK")


if __name__ == "__main__":
    main()
