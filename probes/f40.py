"""
C04 / f1: a throttled client that was held back by ramp-up measures latency from (and catches up with) a schedule
that started *before* its ramp-up wait.

Run as:  cd <checkout> && PYTHONPATH=<checkout> /venv/bin/python demo.py

Real rally code that is exercised: track.Task / track.Operation, track.operation_parameters, the runner registry
(runner.register_runner and all its wrappers), driver.schedule_for, driver.ScheduleHandle, driver.TimePeriodBased,
scheduler.UnitAwareScheduler + DeterministicScheduler, driver.AsyncExecutor, driver.execute_single, driver.Sampler /
driver.Sample and esrally.client.context (RequestContextHolder / RequestContextManager).

Faked, as narrowly as possible:
  * the Elasticsearch client: an object that derives from rally's RequestContextHolder (exactly like
    RallyAsyncElasticsearch does) and whose only "API call" signals on_request_start(), waits for the scripted service
    time and signals on_request_end() - this is what rally's aiohttp trace hooks do for a real request.
  * the clock: the event loop runs on a virtual clock (time only advances when every coroutine waits for a timer) and
    time.perf_counter()/time.time() read that clock, so all numbers below are exact and reproducible.
"""

import asyncio
import sys
import threading
import time

from esrally import metrics, track
from esrally.client.context import RequestContextHolder
from esrally.driver import driver, runner
from esrally.track import params


class VirtualTimeLoop(asyncio.SelectorEventLoop):
    """An event loop whose clock jumps to the next timer instead of waiting for it."""

    def __init__(self):
        super().__init__()
        self._virtual_now = 1000.0
        real_select = self._selector.select

        def select(timeout=None):
            if timeout is not None and timeout > 0:
                self._virtual_now += timeout
            return real_select(0)

        self._selector.select = select

    def time(self):
        return self._virtual_now


class FakeEs(RequestContextHolder):
    def __init__(self, service_time):
        self.service_time = service_time

    async def search(self):
        self.on_request_start()
        await asyncio.sleep(self.service_time)
        self.on_request_end()


class ConstantParamSource:
    def __init__(self, track, params, **kwargs):
        self._params = params
        self.infinite = True

    def partition(self, partition_index, total_partitions):
        return self

    def params(self):
        return dict(self._params)


async def demo_search(es, params):
    await es.search()
    return 1, "ops"


CLIENTS = 2
RAMP_UP = 10  # s -> client 1 starts after 10 * 1/2 = 5 s
WARMUP = 10  # s (the loader requires warmup-time-period >= ramp-up-time-period; equal is legal)
TIME_PERIOD = 20  # s
TARGET_THROUGHPUT = 2  # ops/s over both clients -> each client: one request per second
SERVICE_TIME = 0.8  # s, i.e. *faster* than the target interval: a client can always keep up with its schedule
INTERVAL = CLIENTS / TARGET_THROUGHPUT


def main():
    loop = VirtualTimeLoop()
    asyncio.set_event_loop(loop)
    real_clocks = (time.perf_counter, time.time)
    time.perf_counter = loop.time
    time.time = lambda: 1_700_000_000.0 + loop.time()
    try:
        params.register_param_source_for_name("c04-f1-param-source", ConstantParamSource)
        runner.register_runner("c04-f1-search", demo_search, async_runner=True)

        task = track.Task(
            "throttled-search",
            track.Operation("throttled-search", "c04-f1-search", params={}, param_source="c04-f1-param-source"),
            clients=CLIENTS,
            warmup_time_period=WARMUP,
            time_period=TIME_PERIOD,
            ramp_up_time_period=RAMP_UP,
            params={"target-throughput": TARGET_THROUGHPUT, "clients": CLIENTS},
        )
        param_source = track.operation_parameters(track.Track(name="unittest"), task)
        cancel = threading.Event()
        complete = threading.Event()
        task_start = loop.time()
        samplers = {}
        executors = []
        for client_id in range(CLIENTS):
            allocation = driver.TaskAllocation(task, client_index_in_task=client_id, global_client_index=client_id, total_clients=CLIENTS)
            schedule = driver.schedule_for(allocation, param_source)
            samplers[client_id] = driver.Sampler(start_timestamp=task_start)
            executors.append(
                driver.AsyncExecutor(
                    client_id, task, schedule, {"default": FakeEs(SERVICE_TIME)}, samplers[client_id], cancel, complete, "continue"
                )()
            )

        async def run():
            await asyncio.gather(*executors)

        loop.run_until_complete(run())
    finally:
        time.perf_counter, time.time = real_clocks
        loop.close()

    problems = []
    for client_id in range(CLIENTS):
        samples = samplers[client_id].samples
        ramp_up_wait = RAMP_UP * client_id / CLIENTS
        print(f"client {client_id} (ramp-up wait {ramp_up_wait:.1f}s): {len(samples)} samples")
        previous_issue = None
        for s in samples:
            issue = s.relative_time
            gap = None if previous_issue is None else issue - previous_issue
            previous_issue = issue
            print(
                f"  issued at {issue:6.2f}s  {s.sample_type.name:6s}  service_time={s.service_time:.2f}s  "
                f"processing_time={s.processing_time:.2f}s  latency={s.latency:.2f}s"
            )
            # generic C04 relations, they do hold
            assert s.processing_time >= s.service_time >= 0
            assert s.latency >= s.service_time - 1e-9
            # the client starts at ramp_up_wait and from then on it "will already attempt to reach its specified target
            # throughput" (docs/track.rst, section ramp-up), i.e. one request per INTERVAL. No request may be issued before
            # its slot in *that* schedule ...
            if gap is not None and gap < INTERVAL - 1e-6:
                problems.append(
                    f"client {client_id}: request issued at {issue:.2f}s only {gap:.2f}s after the previous one; expected at "
                    f"least the target interval of {INTERVAL:.2f}s between two requests of a throttled client"
                )
            # ... and as every request is answered within 0.8s < 1s the client is never behind its schedule, hence the
            # request never waits: latency == service time.
            if abs(s.latency - s.service_time) > 1e-6:
                problems.append(
                    f"client {client_id}: {s.sample_type.name} sample issued at {issue:.2f}s has latency {s.latency:.2f}s; expected "
                    f"{s.service_time:.2f}s (= service time, the request was sent the moment the client was allowed to send it)"
                )

    if problems:
        late_normal = [p for p in problems if "Normal sample" in p]
        too_fast = [p for p in problems if "after the previous one" in p]
        print()
        print(f"FAIL: {len(problems)} violations, the first ones:")
        for p in problems[:6]:
            print("  - " + p)
        print(
            f"\nEXPECTED: client 1 starts after its {RAMP_UP / CLIENTS:.0f}s ramp-up wait and then issues one request every "
            f"{INTERVAL:.0f}s, each with latency == service_time == {SERVICE_TIME}s, exactly like client 0 does from second 0.\n"
            f"OBSERVED: client 1 takes its schedule from *before* the ramp-up wait, considers itself {RAMP_UP / CLIENTS:.0f}s behind, "
            f"issues {len(too_fast)} requests back-to-back (every {SERVICE_TIME}s, i.e. above its target throughput) and reports the "
            f"ramp-up wait as latency; {len(late_normal)} of the inflated latencies are in measurement (Normal) samples."
        )
        return 1
    print("OK: ramp-up does not leak into schedule or latency")
    return 0


if __name__ == "__main__":
    sys.exit(main())
