"""
C07 / F1: samples that a client records between the worker's drain (Worker.send_samples) and its check whether the executor has
finished (executor_future.done()) are thrown away when the next entry of the allocation matrix is another task (and not a join point),
i.e. in a `parallel` element that has more tasks than clients and is therefore executed in several rounds (docs/track.rst).

Everything below is real rally code (DriverActor, Driver, Worker, AsyncIoAdapter, AsyncExecutor, Sampler, SamplePostprocessor,
InMemoryMetricsStore, BenchmarkCoordinator.on_task_finished, the runners, the async ES client with rally's documented
`static_responses` transport). Only the Thespian actor system is replaced by an in-process message bus (send / wakeupAfter /
createActor), Worker bootstrap does not load a track from disk, and track preparation is skipped.

Run: cd <checkout> && PYTHONPATH=<checkout> /venv/bin/python demo.py
"""
import collections
import datetime
import json
import os
import sys
import tempfile
import time
from unittest import mock

import thespian.actors

from esrally import config, log, metrics, racecontrol, track
from esrally.driver import driver
from esrally.utils import opts

log.post_configure_actor_logging = lambda: None  # no ~/.rally/logging.json needed


# ---------------------------------------------------------------------------------------------------------------------------------
# minimal in-process actor system (FIFO delivery, timers fired by the test)
# ---------------------------------------------------------------------------------------------------------------------------------
class Bus:
    def __init__(self):
        self.queue = collections.deque()
        self.timers = []

    def deliver_all(self):
        while self.queue:
            target, msg, sender = self.queue.popleft()
            target.receiveMessage(msg, sender)

    def fire(self, target, payload_filter=lambda p: True):
        for i, (t, payload) in enumerate(self.timers):
            if t is target and payload_filter(payload):
                del self.timers[i]
                target.receiveMessage(thespian.actors.WakeupMessage(datetime.timedelta(0), payload), target)
                return True
        return False

    def pending(self, target):
        return [p for t, p in self.timers if t is target]


def wire(cls, bus):
    class Wired(cls):
        on_send = None

        def send(self, target, msg):
            bus.queue.append((target, msg, self))
            if self.on_send:
                self.on_send(msg)

        def wakeupAfter(self, delta, payload=None):
            bus.timers.append((self, payload))

        @property
        def myAddress(self):
            return self

    Wired.__name__ = cls.__name__
    return Wired


class BenchmarkActorStandIn:
    """Runs the real hand-over code of race control (BenchmarkCoordinator) on a real in-memory metrics store."""

    def __init__(self, cfg, t):
        self.coordinator = racecontrol.BenchmarkCoordinator(cfg)
        self.coordinator.metrics_store = metrics.metrics_store(cfg, track=t.name, challenge="default", read_only=False)
        self.complete = False
        self.failures = []

    def receiveMessage(self, msg, sender):
        if isinstance(msg, driver.TaskFinished):
            self.coordinator.on_task_finished(msg.metrics)
        elif isinstance(msg, driver.BenchmarkComplete):
            self.coordinator.metrics_store.bulk_add(msg.metrics)  # first statement of on_benchmark_complete
            self.complete = True
        else:
            self.failures.append(msg)


def make_cfg(tmp):
    responses = os.path.join(tmp, "responses.json")
    with open(responses, "w") as f:
        json.dump([{"path": "*", "body": {}}], f)
    cfg = config.Config()
    scope = config.Scope.application
    hosts = opts.TargetHosts("127.0.0.1:39200")
    for section, key, value in [
        ("system", "env.name", "hunt"),
        ("system", "time.start", datetime.datetime(2024, 1, 1)),
        ("system", "race.id", "c07-f1"),
        ("system", "available.cores", 1),
        ("system", "quiet.mode", True),
        ("node", "root.dir", tmp),
        ("node", "rally.root", tmp),
        ("track", "challenge.name", "default"),
        ("track", "params", {}),
        ("track", "test.mode.enabled", True),
        ("telemetry", "devices", []),
        ("telemetry", "params", {}),
        ("mechanic", "car.names", ["external"]),
        ("mechanic", "skip.rest.api.check", False),
        ("mechanic", "distribution.version", "8.6.1"),
        ("client", "hosts", hosts),
        # documented offline mode: --client-options="static_responses:'responses.json'"
        ("client", "options", opts.ClientOptions(f"static_responses:'{responses}'", target_hosts=hosts)),
        ("driver", "load_driver_hosts", ["localhost"]),
        ("driver", "on.error", "continue"),
        ("driver", "profiling", False),
        ("driver", "assertions", False),
        ("reporting", "datastore.type", "in-memory"),
    ]:
        cfg.add(scope, section, key, value)
    return cfg


ITERATIONS = 3


def make_track():
    # docs/track.rst ("parallel"): "Rally will *not* run all three tasks in parallel because you specified that you want only two
    # clients in total. [...] After they have finished, Rally will run "phrase" with one client."  Same here with 2 tasks / 1 client.
    first = track.Task(
        "first", track.Operation("think", "sleep", params={"duration": 0.3}), clients=1, iterations=ITERATIONS
    )
    second = track.Task(
        "second", track.Operation("query", "raw-request", params={"path": "/_search", "method": "GET"}), clients=1, iterations=1
    )
    challenge = track.Challenge("default", default=True, schedule=[track.Parallel([first, second], clients=1)])
    return track.Track("hunt", challenges=[challenge])


def race(slow_send):
    """
    :param slow_send: if True, shipping the second-to-last batch of samples of task "first" to the driver takes as long as the client
                      needs for its last request (Thespian serialises and transmits the message synchronously in send()).
    """
    tmp = tempfile.mkdtemp()
    cfg = make_cfg(tmp)
    t = make_track()
    bus = Bus()
    workers = []

    class DA(wire(driver.DriverActor, bus)):
        def createActor(self, cls, targetActorRequirements=None):
            w = wire(cls, bus)()
            workers.append(w)
            return w

        def prepare_track(self, hosts, cfg, track):
            pass  # not under test

    def wait_executor(w):
        while w.executor_future is not None and not w.executor_future.done():
            time.sleep(0.005)

    with mock.patch.object(driver, "load_local_config", lambda c: c), mock.patch.object(
        driver, "load_track", lambda c, install_dependencies=False: None
    ):
        driver_actor = DA()
        sink = BenchmarkActorStandIn(cfg, t)
        driver_actor.receiveMessage(driver.PrepareBenchmark(cfg, t), sink)
        driver_actor.receiveMessage(driver.StartBenchmark(), sink)
        bus.deliver_all()  # -> Bootstrap, StartWorker, JoinPointReached(0), TaskFinished, Drive
        (worker,) = workers

        # Drive has been received: the pending wake-up starts the first task ("first") of the parallel element
        assert bus.fire(worker)
        bus.deliver_all()
        assert worker.executor_future is not None

        if slow_send:
            # let the client complete all requests but the last one ...
            while worker.sampler.q.qsize() < ITERATIONS - 1:
                time.sleep(0.005)

            # ... and wake up the worker now. While it ships the drained samples, the client finishes its last request.
            def on_send(msg):
                if isinstance(msg, driver.UpdateSamples):
                    worker.on_send = None
                    wait_executor(worker)

            worker.on_send = on_send
            assert bus.fire(worker)
            bus.deliver_all()

        # from here on: benign schedule (each worker wake-up happens after its executor has finished)
        while not sink.complete and not sink.failures:
            while bus.fire(driver_actor, lambda p: p is not None):
                pass
            wait_executor(worker)
            assert bus.fire(worker), "worker has no pending wake-up"
            bus.deliver_all()
        worker.pool.shutdown()

    assert not sink.failures, sink.failures[0].__dict__
    counts = collections.Counter()
    for doc in sink.coordinator.metrics_store.docs:
        if doc["name"] in ("latency", "service_time", "processing_time"):
            counts[(doc["task"], doc["name"])] += 1
    return counts


def main():
    expected = {("first", n): ITERATIONS for n in ("latency", "service_time", "processing_time")}
    expected.update({("second", n): 1 for n in ("latency", "service_time", "processing_time")})

    control = race(slow_send=False)
    print("control run (worker wakes up after the client has finished):", dict(control))
    if dict(control) != expected:
        print("UNEXPECTED: control run deviates, harness problem")
        return 2

    observed = race(slow_send=True)
    print("racy run (client finishes its last request while the worker ships samples):", dict(observed))
    if dict(observed) != expected:
        print(
            f"\nVIOLATION of C07: task 'first' executed {ITERATIONS} requests, so race control's metrics store must hold "
            f"{ITERATIONS} latency / service_time / processing_time records for it.\n"
            f"  expected: {expected}\n  observed: {dict(observed)}\n"
            "The sample of the last request was still in the old Sampler when Worker.drive() replaced it for the next task "
            "of the same parallel element; it never reached the driver (no full queue, no downsampling involved)."
        )
        return 1
    print("OK: all records present")
    return 0


if __name__ == "__main__":
    sys.exit(main())
