"""
C11 / f1: a task filter that removes the 'completed-by' task of a parallel element leaves its dependent
(eternal) sibling tasks without anything that ever ends them: the filtered race never gets past that element.

Run as:  cd <checkout> && PYTHONPATH=<checkout> /venv/bin/python demo.py

Everything below the thespian message transport is the real rally code: TrackSpecificationReader,
TaskFilterTrackProcessor, Driver, Allocator, Worker, AsyncIoAdapter, AsyncExecutor, schedule_for, the `sleep`
runner and its parameter source. Only the actor system is replaced by a tiny in-process message queue (class Sim),
and the cluster-level telemetry devices (which need Elasticsearch) are switched off. The `sleep` operation is used
instead of bulk/search because it is the one built-in runner that does not need Elasticsearch.
"""
import copy
import datetime
import heapq
import itertools
import os
import sys
import tempfile
import time
from unittest import mock

os.environ.setdefault("RALLY_HOME", tempfile.mkdtemp())

from esrally import config, exceptions, log, telemetry  # noqa: E402
from esrally.driver import driver  # noqa: E402
from esrally.track import loader, track  # noqa: E402
from esrally.utils import opts  # noqa: E402

# actors re-read ~/.rally/logging.json in their constructor; not needed (and maybe not present) here
log.post_configure_actor_logging = lambda: None

# The usual "index and query at the same time" pattern: the queries have no end of their own (only a warmup time period,
# no time-period / iterations) and run for as long as the indexing task runs (completed-by).
TRACK = {
    "description": "C11 f1",
    "indices": [{"name": "idx", "auto-managed": False}],
    "schedule": [
        {
            "parallel": {
                "completed-by": "index",
                "tasks": [
                    {"name": "index", "operation": {"name": "index-op", "operation-type": "sleep", "duration": 0.05}, "iterations": 5},
                    {
                        "name": "query",
                        "operation": {"name": "query-op", "operation-type": "sleep", "duration": 0.01},
                        "warmup-time-period": 0,
                        "clients": 2,
                    },
                ],
            }
        },
        {"name": "after", "operation": {"name": "after-op", "operation-type": "sleep", "duration": 0.01}, "iterations": 2},
    ],
}


class Wakeup:
    def __init__(self, payload=None):
        self.payload = payload


class Sim:
    """delivers messages in order, delayed ones (wakeupAfter) when they are due"""

    def __init__(self):
        self.q = []
        self.seq = itertools.count()
        self.complete = False
        self.failure = None

    def post(self, delay, target, msg, sender):
        heapq.heappush(self.q, (time.perf_counter() + delay, next(self.seq), target, msg, sender))

    def run(self, timeout):
        deadline = time.perf_counter() + timeout
        while not self.complete and self.failure is None:
            now = time.perf_counter()
            if now > deadline:
                return "TIMEOUT"
            if not self.q:
                return "DEADLOCK"
            due, _, target, msg, sender = self.q[0]
            if due > now:
                time.sleep(min(due - now, 0.05))
                continue
            heapq.heappop(self.q)
            target.deliver(msg, sender)
        return "FAILURE" if self.failure else "COMPLETE"


class SimWorker(driver.Worker):
    def __init__(self, sim, cfg, worker_id, driver_actor):
        super().__init__()
        self.sim = sim
        # what receiveMsg_Bootstrap does (minus loading the track repository from disk)
        self.config = cfg
        self.worker_id = worker_id
        self.driver_actor = driver_actor

    def send(self, target, msg):
        self.sim.post(0, target, msg, self)

    def wakeupAfter(self, delta, payload=None):
        self.sim.post(max(delta.total_seconds(), 0), self, Wakeup(payload), self)

    def deliver(self, msg, sender):
        name = "WakeupMessage" if isinstance(msg, Wakeup) else type(msg).__name__
        getattr(self, "receiveMsg_" + name)(msg, sender)


class SimDriverActor:
    """the thin DriverActor wrapper around the real Driver, minus thespian"""

    def __init__(self, sim):
        self.sim = sim
        self.cluster_details = {}
        self.driver = None
        self.workers = []

    def prepare_track(self, hosts, cfg, t):
        pass

    def create_client(self, host, cfg, worker_id):
        w = SimWorker(self.sim, cfg, worker_id, self)
        self.workers.append(w)
        return w

    def start_worker(self, worker, worker_id, cfg, t, allocations, client_contexts=None):
        self.sim.post(0, worker, driver.StartWorker(worker_id, cfg, t, allocations, client_contexts), self)

    def drive_at(self, worker, ts):
        self.sim.post(0, worker, driver.Drive(ts), self)

    def complete_current_task(self, worker):
        self.sim.post(0, worker, driver.CompleteCurrentTask(), self)

    def on_task_finished(self, metrics, next_task_scheduled_in):
        self.driver.reset_relative_time()

    def on_benchmark_complete(self, metrics):
        self.sim.complete = True

    def deliver(self, msg, sender):
        if isinstance(msg, driver.JoinPointReached):
            self.driver.joinpoint_reached(msg.worker_id, msg.worker_timestamp, msg.task)
        elif isinstance(msg, driver.UpdateSamples):
            self.driver.update_samples(msg.samples)
        elif isinstance(msg, Wakeup):
            if not self.driver.finished():
                self.driver.update_progress_message()
                self.sim.post(1, self, Wakeup(), self)
        else:
            self.sim.failure = msg


class SyncEsFactory:
    def __init__(self, *args, **kwargs):
        pass

    def create(self):
        return mock.MagicMock()


def cfg_for(include=None, exclude=None):
    cfg = config.Config()
    a = config.Scope.application
    cfg.add(a, "system", "env.name", "unittest")
    cfg.add(a, "system", "time.start", datetime.datetime(2017, 8, 20, 1, 0, 0))
    cfg.add(a, "system", "race.id", "6ebc6e53-ee20-4b0c-99b4-09697987e9f4")
    cfg.add(a, "system", "available.cores", 4)
    cfg.add(a, "system", "quiet.mode", True)
    cfg.add(a, "node", "root.dir", tempfile.gettempdir())
    cfg.add(a, "track", "challenge.name", None)
    cfg.add(a, "track", "params", {})
    # only used by the driver/worker to shorten the pause between tasks and the wake-up interval
    cfg.add(a, "track", "test.mode.enabled", True)
    # this is what --include-tasks / --exclude-tasks become (rally.py: opts.csv_to_list)
    cfg.add(a, "track", "include.tasks", opts.csv_to_list(include))
    cfg.add(a, "track", "exclude.tasks", opts.csv_to_list(exclude))
    cfg.add(a, "telemetry", "devices", [])
    cfg.add(a, "telemetry", "params", {})
    cfg.add(a, "mechanic", "car.names", ["default"])
    cfg.add(a, "mechanic", "skip.rest.api.check", True)
    cfg.add(a, "mechanic", "distribution.version", "8.0.0")
    cfg.add(a, "client", "hosts", opts.TargetHosts("localhost:9200"))
    cfg.add(a, "client", "options", opts.ClientOptions("timeout:60"))
    cfg.add(a, "driver", "load_driver_hosts", ["localhost"])
    cfg.add(a, "driver", "on.error", "abort")
    cfg.add(a, "driver", "profiling", False)
    cfg.add(a, "driver", "assertions", False)
    cfg.add(a, "reporting", "datastore.type", "in-memory")
    return cfg


def describe(schedule):
    return [[t.name for t in e] if isinstance(e, track.Parallel) else e.name for e in schedule]


def race(include=None, exclude=None, timeout=12):
    cfg = cfg_for(include, exclude)
    t = loader.TrackSpecificationReader()("unittest", copy.deepcopy(TRACK), "/mappings")
    loader.TaskFilterTrackProcessor(cfg).on_after_load_track(t)
    schedule = t.challenges[0].schedule

    sim = Sim()
    da = SimDriverActor(sim)
    d = driver.Driver(da, cfg, es_client_factory_class=SyncEsFactory)
    da.driver = d
    d.prepare_benchmark(t)
    d.telemetry = telemetry.Telemetry([], devices=[])  # no Elasticsearch

    sampled = {}
    original_update_samples = d.update_samples

    def update_samples(samples):
        for s in samples:
            sampled[s.task.name] = sampled.get(s.task.name, 0) + 1
        return original_update_samples(samples)

    d.update_samples = update_samples
    d.start_benchmark()
    sim.post(1, da, Wakeup(), da)
    started = time.perf_counter()
    outcome = sim.run(timeout)
    took = time.perf_counter() - started
    for w in da.workers:
        # let the load generator threads go
        w.cancel.set()
    detail = f" ({sim.failure.message})" if sim.failure is not None and hasattr(sim.failure, "message") else ""
    return {
        "schedule": describe(schedule),
        "outcome": outcome + detail,
        "took": took,
        "steps_done": max(d.current_step, 0),
        "steps": d.number_of_steps,
        "sampled": sampled,
    }


def main():
    problems = []

    base = race()
    print(f"no filter            : schedule={base['schedule']} -> {base['outcome']} in {base['took']:.1f}s, "
          f"{base['steps_done']}/{base['steps']} steps, samples per task={base['sampled']}")
    if base["outcome"] != "COMPLETE":
        print("harness problem: the unfiltered race does not complete")
        os._exit(2)

    for kind, value in (("exclude", "index"), ("include", "query,after")):
        try:
            r = race(**{kind: value})
        except exceptions.SystemSetupError as e:
            # refusing the filter with an explicit error is fine
            print(f"--{kind}-tasks={value:<12}: refused with an explicit error: {e}")
            continue
        print(f"--{kind}-tasks={value:<12}: schedule={r['schedule']} -> {r['outcome']} after {r['took']:.1f}s, "
              f"{r['steps_done']}/{r['steps']} steps, samples per task={r['sampled']}")
        if r["schedule"] != [["query"], "after"]:
            problems.append(f"--{kind}-tasks={value}: unexpected filtered schedule {r['schedule']}")
        if r["outcome"] != "COMPLETE" or "after" not in r["sampled"]:
            problems.append(
                f"--{kind}-tasks={value}: EXPECTED the filtered track {r['schedule']} to be runnable, i.e. the race executes and "
                f"reports both remaining steps (the unfiltered race needs {base['took']:.1f}s), or rally to refuse the filter with "
                f"an explicit error. OBSERVED: {r['outcome']} after {r['took']:.0f}s with {r['steps_done']}/{r['steps']} steps done; "
                f"task 'query' was sampled {r['sampled'].get('query', 0)} times and is still running, task 'after' was never "
                f"started: the filter removed the task named by 'completed-by' so nothing ever ends 'query'."
            )

    if problems:
        print("\nFAIL")
        for p in problems:
            print(" * " + p)
        sys.stdout.flush()
        os._exit(1)
    print("\nOK")
    sys.stdout.flush()
    os._exit(0)


if __name__ == "__main__":
    main()
