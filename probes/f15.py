# F15 (C19): the selective parser drops `null` members of a collected flat object. A composite aggregation with `missing_bucket: true` returns an
# after_key such as {"product": null, "day": 17}; Rally extracts {"day": 17} and sends it as `after`, which Elasticsearch rejects because `after`
# must hold a value for every source ([after] has 1 value(s) but [sources] has 2). The fully parsed cursor keeps the null.
# run: PYTHONPATH=/repo /venv/bin/python probes/f15.py
import io, json
from esrally.driver import runner
resp = {"took": 1, "timed_out": False,
        "aggregations": {"my_buckets": {"after_key": {"product": None, "day": 17}, "buckets": [{"key": {"product": None, "day": 17}, "doc_count": 1}]}}}
got = runner.parse(io.BytesIO(json.dumps(resp).encode()), ["took", "timed_out"], ["aggregations.my_buckets.buckets"], ["aggregations.my_buckets.after_key"])
extracted, full = got.get("aggregations.my_buckets.after_key"), resp["aggregations"]["my_buckets"]["after_key"]
print("extracted cursor:", extracted, "| fully parsed cursor:", full)
if extracted != full:
    raise SystemExit("FAIL: the lazily extracted composite cursor differs from the fully parsed one (null member dropped)")
