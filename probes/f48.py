"""
C10 / f2: "mixing iterations with time periods" is only rejected for two of the four possible mixes.

Rejected by the loader:  warmup-iterations + time-period,  warmup-time-period + iterations
Loaded without a word:   iterations + time-period,          warmup-iterations + warmup-time-period
(also when one half of the mix is inherited from the enclosing 'parallel' element)

The driver then runs such a task purely time-based, i.e. the iteration counts written in the file are ignored.

Run:  cd <checkout> && PYTHONPATH=<checkout> /venv/bin/python demo.py
"""
import json
import os
import shutil
import sys
import tempfile

import esrally
from esrally import config
from esrally.driver import driver
from esrally.track import loader


def load(track_spec):
    d = tempfile.mkdtemp(prefix="c10-f2-")
    try:
        with open(os.path.join(d, "track.json"), "w", encoding="utf-8") as f:
            f.write(json.dumps(track_spec, indent=2))
        cfg = config.Config()
        cfg.add(config.Scope.application, "node", "rally.root", os.path.dirname(esrally.__file__))
        cfg.add(config.Scope.application, "track", "params", {})
        return loader.TrackFileReader(cfg).read("demo", os.path.join(d, "track.json"), d)
    finally:
        shutil.rmtree(d, ignore_errors=True)


QUERY = {"operation-type": "search", "name": "q", "body": {"query": {"match_all": {}}}}

CASES = [
    # label, schedule
    ("task: warmup-iterations + time-period", [{"operation": QUERY, "warmup-iterations": 100, "time-period": 60}]),
    ("task: warmup-time-period + iterations", [{"operation": QUERY, "warmup-time-period": 60, "iterations": 100}]),
    ("task: iterations + time-period", [{"operation": QUERY, "iterations": 100, "time-period": 60}]),
    ("task: warmup-iterations + warmup-time-period", [{"operation": QUERY, "warmup-iterations": 100, "warmup-time-period": 60}]),
    (
        "task: all four",
        [{"operation": QUERY, "warmup-iterations": 100, "iterations": 100, "warmup-time-period": 60, "time-period": 60}],
    ),
    (
        "parallel: time-period on 'parallel', iterations on its task",
        [{"parallel": {"time-period": 600, "tasks": [{"operation": QUERY, "iterations": 100, "clients": 2}]}}],
    ),
    (
        "parallel: iterations on 'parallel', time-period on its task",
        [{"parallel": {"iterations": 100, "tasks": [{"operation": QUERY, "time-period": 600, "clients": 2}]}}],
    ),
]

failures = []
for label, schedule in CASES:
    try:
        t = load({"schedule": schedule})
    except loader.TrackSyntaxError as e:
        print(f"[ok]   {label}\n         rejected: {str(e)[:140]}...")
        continue
    task = next(iter(t.challenges[0].schedule[0]))
    time_based = driver.requires_time_period_schedule(task, None, None)
    print(
        f"[FAIL] {label}\n"
        f"         expected: rejected with a track syntax error (mixing time periods and iterations is not allowed)\n"
        f"         observed: LOADED with warmup_iterations={task.warmup_iterations} iterations={task.iterations} "
        f"warmup_time_period={task.warmup_time_period} time_period={task.time_period}; "
        f"driver.requires_time_period_schedule -> {time_based} (the iteration counts are ignored at run time)"
    )
    failures.append(label)

if failures:
    print(
        f"\nC10 VIOLATED: {len(failures)} specifications that mix iterations with time periods were loaded instead of being "
        f"rejected with a track syntax error: {failures}"
    )
    sys.exit(1)
print("all fine")
