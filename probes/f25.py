"""
C14 / f1: a stale line-offset table survives the re-extraction of a document file from a tar-family archive.

History (everything below runs the real rally code: loader.DocumentSetPreparator, loader.Downloader -> net.download over a
real HTTP connection to a local server, loader.Decompressor -> io.decompress -> tarfile, io.prepare_file_offset_table,
io.skip_lines; nothing is mocked):

  run 1  the track declares revision A of "documents.json.tar.gz"; nothing is on disk. Rally downloads, extracts and builds
         documents.json.offset.
  ----   the track author had published revision B of the corpus under the same file name some time ago (the archive
         member carries the mtime of the day it was packed, here 30 days ago) and the user now updates the track:
         compressed-bytes / uncompressed-bytes / document-count are those of revision B.
  run 2  documents.json (rev A) and documents.json.tar.gz (rev A) have the wrong size, so Rally downloads rev B and extracts it.
         tarfile restores the member's mtime (30 days ago), so FileOffsetTable.is_valid() (offset mtime >= data mtime) accepts
         the table built in run 1 for revision A. prepare_file_offset_table() returns None: the table is neither rebuilt nor
         is the line count verified.

Expected: after run 2 returns, skip_lines() positions a reader at the same byte as skipping the lines one by one.
Observed: the reader is positioned at the byte offset that line had in revision A, i.e. in the middle of another document.
"""
import http.server
import os
import random
import shutil
import sys
import tarfile
import tempfile
import threading
import time

from esrally.track import loader, track
from esrally.utils import io

for k in list(os.environ):
    if k.lower().endswith("_proxy"):
        del os.environ[k]

LINES = 120_000
SKIP = 100_000


def write_corpus(path, seed):
    rnd = random.Random(seed)
    with open(path, "wt", encoding="utf-8") as f:
        for i in range(LINES):
            f.write('{"id": %d, "text": "%s"}\n' % (i, "x" * rnd.randint(1, 60)))


def publish(pub_dir, src_doc, packed_at):
    os.utime(src_doc, (packed_at, packed_at))
    archive = os.path.join(pub_dir, "documents.json.tar.gz")
    with tarfile.open(archive, "w:gz") as t:
        t.add(src_doc, arcname="documents.json")
    return os.path.getsize(archive), os.path.getsize(src_doc)


def serve(directory):
    class Handler(http.server.SimpleHTTPRequestHandler):
        def __init__(self, *a, **kw):
            super().__init__(*a, directory=directory, **kw)

        def log_message(self, *a):
            pass

    srv = http.server.ThreadingHTTPServer(("127.0.0.1", 0), Handler)
    threading.Thread(target=srv.serve_forever, daemon=True).start()
    return srv


def main():
    work = tempfile.mkdtemp(prefix="c14-f1-")
    try:
        pub = os.path.join(work, "published")
        src = os.path.join(work, "author")
        data_root = os.path.join(work, "benchmarks", "data", "demo")
        for d in (pub, src, data_root):
            os.makedirs(d)
        srv = serve(pub)
        base_url = f"http://127.0.0.1:{srv.server_address[1]}"
        now = time.time()

        def doc_set(compressed, uncompressed):
            return track.Documents(
                source_format=track.Documents.SOURCE_FORMAT_BULK,
                document_file="documents.json",
                document_archive="documents.json.tar.gz",
                base_url=base_url,
                number_of_documents=LINES,
                compressed_size_in_bytes=compressed,
                uncompressed_size_in_bytes=uncompressed,
            )

        preparator = loader.DocumentSetPreparator("demo", loader.Downloader(offline=False, test_mode=False), loader.Decompressor())

        # revision A, packed 60 days ago
        src_doc = os.path.join(src, "documents.json")
        write_corpus(src_doc, seed=1)
        sizes_a = publish(pub, src_doc, now - 60 * 86400)
        print("### run 1: revision A, empty data directory")
        preparator.prepare_document_set(doc_set(*sizes_a), data_root)

        # revision B, packed 30 days ago (i.e. before run 1 built its offset table); the user only now updates the track
        write_corpus(src_doc, seed=2)
        sizes_b = publish(pub, src_doc, now - 30 * 86400)
        assert sizes_a != sizes_b
        print("### run 2: track updated to revision B; revision A files and offset table are on disk")
        preparator.prepare_document_set(doc_set(*sizes_b), data_root)
        print("### run 2 returned normally")

        doc = os.path.join(data_root, "documents.json")
        with open(doc, "rb") as f, open(src_doc, "rb") as g:
            assert f.read() == g.read(), "document file is not revision B"

        with open(doc, "rb") as f:
            io.skip_lines(doc, f, SKIP)
            via_table = f.tell()
            next_line = f.readline()
        with open(doc, "rb") as f:
            for _ in range(SKIP):
                f.readline()
            one_by_one = f.tell()
            wanted_line = f.readline()

        if via_table != one_by_one:
            print(
                f"FAIL: corpus preparation returned successfully but left a stale offset table.\n"
                f"  expected: skip_lines(..., {SKIP}) positions the reader at byte {one_by_one} (next line {wanted_line!r})\n"
                f"  observed: reader positioned at byte {via_table} (next 'line' read is {next_line!r})\n"
                f"  offset table on disk: {open(doc + '.offset').read().split()} (built for revision A in run 1, "
                f"mtime {os.path.getmtime(doc + '.offset'):.0f} >= data file mtime {os.path.getmtime(doc):.0f} restored by tarfile)"
            )
            return 1
        print("OK: offset table matches the document file")
        return 0
    finally:
        shutil.rmtree(work, ignore_errors=True)


if __name__ == "__main__":
    sys.exit(main())
