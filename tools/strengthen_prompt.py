#!/venv/bin/python
"""Prints the task text for a rule worker: make ONE rule module detect kept seeded mutants it does not report yet. usage: strengthen_prompt.py C06 C06-m13 C06-m14"""
import json
import os
import sys

pid = sys.argv[1]
ids = sys.argv[2:]
for l in open('/verif/properties.jsonl'):
    p = json.loads(l)
    if p['id'] == pid:
        break
items = []
for i in ids:
    d = f"/verif/seeded/{i}"
    notes = open(os.path.join(d, "notes.md")).read().strip().splitlines() if os.path.exists(os.path.join(d, "notes.md")) else [""]
    items.append(f"  - seeded/{i}: {notes[0].lstrip('# ').strip()[:260]} (read seeded/{i}/notes.md, patch.diff and demo.py)")
print(f"""You are extending ONE rule module of a repository-specific static-analysis checker suite. The suite lives in /verif and analyses the Python sources of elastic/rally in /repo WITHOUT RUNNING THEM (AST / CFG / call graph / value evaluation of extracted pure expressions and functions on representative inputs by the interpreters inside the rule modules). Never modify /repo. Your file is /verif/rules/{pid}.py - edit ONLY that file.

Background (read first, briefly): /verif/DESIGN.md sections 1-3, 9.4, 9.5, 9.9 (conventions: obligations `chk.rule(id, text, floor, breaks)` / `chk.ob(rule, instance, ok, node, detail, key=...)`, `chk.unknown`, AnchorMissing, exit codes 0 / 1+VIOLATION / 2+ANALYSIS-ERROR, known findings matched by construct-key substring); the property text for {pid} in /verif/properties.jsonl; your module /verif/rules/{pid}.py (it already contains local interpreters / simulators - reuse them); helper APIs in /verif/sa/ (source.py: Repo/Module, walk_body, local_defs, inline / inline_node, bind_args, params_of, enclosing*, package_calls, parse-time normalisations N1-N9 - read the Normalise docstring and propagate_constants; cfg.py: cfg_of, must_pass / dominated_by_nodes / path_exists, guards(); pat.py; tables.py decide + minieval.py ev / Record; classes.py: class table, MRO, method_closure, actor model).

THE PROPERTY ({pid}: {p['title']})
{p['statement']}
It must hold: {p['quantifier']['text']}

WHAT HAPPENED: independent developers, who knew only the property text, wrote realistic BUGS: small source changes that silently break the property while everything still compiles and the full existing test suite passes. Each one is kept under /verif/seeded/<id>/ (patch.diff, notes.md explaining the broken clause and the trigger, demo.py that fails with the change and passes without it). Your check does NOT report these (it stays silent or only says "not recognised"):
{chr(10).join(items)}

Evaluate with:   cd /verif && /venv/bin/python tools/reeval_seeded.py --one <id>      (prints a JSON object {{property: {{"exit": 1|2, "lines": [...]}}}} of the checks that are not silent on the tree with the patch, evaluated through an in-memory overlay; nothing is applied to /repo). A seed counts as detected when "{pid}" appears there with "exit": 1.

GOAL: for each listed seed, add or re-state obligation(s) in /verif/rules/{pid}.py so that the check reports a VIOLATION (exit 1) on the tree with the patch, under these conditions:
 1. The new obligation is a genuine NECESSARY CONDITION of a clause of the property, stated generally (a rule about roles, data flow, paths or values - e.g. "every reader of X reads it under the key the writer stores", "the value handed to Y is the one computed for THIS element", "on every path on which A happened, B happens before C", or an evaluation of the extracted function on representative inputs compared with what the property demands), NOT a match on the text of this particular mutant. Ask: which invariant of the code does the mutant violate, and which OTHER small edits would violate the same invariant? The rule must catch those too. Prefer evaluating the affected function(s) with the interpreters your module already has (on inputs chosen from the trigger described in notes.md) over new syntactic patterns.
 2. It holds on the current /repo: `cd /verif && /venv/bin/python check.py {pid} --no-selftest` exits 0 (KNOWN-FINDING lines are fine), nothing inconclusive, no rule with fewer instances than before you started (record the per-rule `instances=` first), no obligation deleted.
 3. It must stay SILENT on behaviour-preserving changes: `cd /verif && /venv/bin/python -m sa.selftest {pid}` ends with `missed=[] false_alarms=[] ... skipped=[]` (battery, every kept seeded mutant {pid} detects - now including the listed ones -, every benign/{pid}-* change silent), and `VB_PIDS={pid} /venv/bin/python tools/verify_benign.py --reeval` (all 224 kept behaviour-preserving changes of all properties; it rewrites benign/*/meta.json, that is fine) reports `0 with a false alarm, 0 inconclusive only`. Where a role cannot be located in some refactored shape the verdict is "not recognised" (chk.unknown / AnchorMissing), never a falsified obligation: falsify only when the construct WAS located and is wrong.
 4. `cd /verif && /venv/bin/python tools/metamorph.py T1 T2 T3 T4 T5 T6 T7 T8 T9 T10 --pids={pid}` reports false_alarm=0 inconclusive=0.
 5. For each new obligation add `V(name, "break", file, old_text, new_text, rule_id)` variants to the module's VARIANTS: the mutant itself and at least one DIFFERENT edit violating the same invariant, plus at least one `V(name, "keep", ...)` variant that respells the affected code without changing behaviour (look at existing V(...) entries for the format; old_text must occur exactly once in the file; two-edit variants take a list).
 6. If, after a real attempt, a seed cannot be decided by static analysis of the source (the violation depends on runtime quantities no rule in reach can bound), say so and explain precisely why; do not add a brittle proxy. If the mutant turns out to be behaviour-preserving w.r.t. the property as stated, say so with the argument.
 7. Edit only /verif/rules/{pid}.py. Do not touch /repo, /verif/sa, other rule modules, tools, seeded/, benign/*/patch.diff, known_findings.json, DESIGN.md; do not run git commit / checkout / stash / reset anywhere; do not run `vp`. Rule functions imported from OTHER rule modules belong to the module defining them. If a generally useful helper is missing in sa/, write it locally in your module and mention it in your report. An exception inside the checker is a failure; keep the run time of the check below ~5 s (never copy.deepcopy analysed AST nodes: they carry parent links - re-parse `ast.unparse(node)` instead).

When done reply with: per seed the rule id + obligation text that now reports it (or why it cannot be decided), which other edits the same obligation catches, the variants added, the final lines of check.py / sa.selftest / verify_benign --reeval / metamorph, before/after instance counts per rule, and anything suspicious you noticed in /repo.""")
