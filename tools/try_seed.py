#!/venv/bin/python
"""Analyse a kept seeded change in memory (patched scratch copies as overlay, /repo untouched) with one or more checks.
usage: try_seed.py C01-m5 [C01 C02 ...]   (default: the mutant's own property)"""
import os
import sys

VERIF = os.path.dirname(os.path.dirname(os.path.abspath(__file__)))
sys.path.insert(0, VERIF)
import check as check_mod  # noqa: E402
from sa import selftest, source  # noqa: E402

name = sys.argv[1]
pids = sys.argv[2:] or [name.split("-")[0]]
base = source.Repo()
ov = selftest.seeded_overlay(os.path.join(VERIF, "seeded", name, "patch.diff"), base.root)
if ov is None:
    sys.exit("patch does not apply")
for pid in pids:
    chk = check_mod.run_property(pid, "quick", repo=base.with_overlay(ov), quiet=True)
    known = chk._known()
    bad = [o for o in chk.obligations if not o.ok and not any(e.get("rule") == o.rule and e.get("construct") and e["construct"] in o.key for e in known)]
    for rid, r in chk.rules.items():
        if r["instances"] < r["floor"]:
            chk.inconclusive.append(f"{rid}: floor ({r['instances']} < {r['floor']})")
    print(f"{name} under {pid}: {len(bad)} falsified, inconclusive={len(chk.inconclusive)}")
    for o in bad[:8]:
        print(f"   [{o.rule}] {o.instance}: {o.detail}"[:260])
    for m in chk.inconclusive[:5]:
        print("   INCONCLUSIVE", m[:260])
