#!/venv/bin/python
"""Analyse /repo as it was BEFORE one of its `fix:` commits (only the files that commit touched are taken from its parent, as an in-memory overlay; /repo untouched).
The check of the property must report the repaired defect there (and nothing else new).   usage: try_revert.py <commit> C15 [C02 ...]"""
import os
import subprocess
import sys

VERIF = os.path.dirname(os.path.dirname(os.path.abspath(__file__)))
sys.path.insert(0, VERIF)
import check as check_mod  # noqa: E402
from sa import source  # noqa: E402

commit = sys.argv[1]
pids = sys.argv[2:]
base = source.Repo()
files = subprocess.run(["git", "-C", base.root, "show", "--name-only", "--format=", commit], capture_output=True, text=True, check=True).stdout.split()
# revert only this commit's hunks on top of the CURRENT files (later fixes to the same file stay in place)
import tempfile, shutil
d = tempfile.mkdtemp(prefix="revert-")
try:
    for f in files:
        os.makedirs(os.path.dirname(os.path.join(d, f)), exist_ok=True)
        shutil.copy(os.path.join(base.root, f), os.path.join(d, f))
    diff = subprocess.run(["git", "-C", base.root, "show", "--format=", commit], capture_output=True, text=True, check=True).stdout
    p = subprocess.run(["patch", "-R", "-p1", "-s", "-d", d], input=diff, capture_output=True, text=True)
    if p.returncode != 0:
        sys.exit("cannot revert " + commit + " on the current files: " + p.stdout + p.stderr)
    ov = {f: open(os.path.join(d, f), encoding="utf-8").read() for f in files if f.endswith(".py") or f.endswith(".json") or f.endswith(".rst")}
finally:
    shutil.rmtree(d, ignore_errors=True)
for pid in pids:
    chk = check_mod.run_property(pid, "quick", repo=base.with_overlay(ov), quiet=True)
    known = chk._known()
    bad = [o for o in chk.obligations if not o.ok and not any(e.get("status") == "known" and e.get("rule") == o.rule and e.get("construct") and e["construct"] in o.key for e in known)]
    for rid, r in chk.rules.items():
        if r["instances"] < r["floor"]:
            chk.inconclusive.append(f"{rid}: floor ({r['instances']} < {r['floor']})")
    print(f"before {commit} under {pid}: {len(bad)} falsified, inconclusive={len(chk.inconclusive)}")
    for o in bad[:8]:
        print(f"   [{o.rule}] {o.instance} (key {o.key}): {o.detail}"[:330])
    for m in chk.inconclusive[:5]:
        print("   INCONCLUSIVE", m[:260])
