#!/venv/bin/python
"""Print the prompt for a defect-hunting sub-agent for property <id>: property text + scratch worktree only; the agent looks for inputs / schedules / histories on which
the UNCHANGED code violates the property (nothing is mutated). Findings are then probed here (probes/fNN.py) before anything is claimed."""
import json
import sys

pid = sys.argv[1]
for l in open('/verif/properties.jsonl'):
    p = json.loads(l)
    if p['id'] == pid:
        break
known = [e for e in json.load(open('/verif/known_findings.json'))['findings'] if e['property'] == pid]
seen = []
for e in known:
    w = e['what']
    w = w.split(' ', 3)[-1] if w.startswith('fixed:') else w
    if w[:80] not in [s[:80] for s in seen]:
        seen.append(("(already repaired in your checkout) " if e['status'] == 'fixed' else "(known, still present) ") + w[:400])
wt = f"/tmp/wt/hunt-{pid}"
out = f"/tmp/hunt/{pid}"
mech = "\n".join(f"  - {m.get('name')} @ {m.get('where')}" for m in p['anchors']['mechanism'])
print(f"""You are reviewing the open-source project elastic/rally (Elastic's Python macrobenchmarking framework) for GENUINE DEFECTS against one stated behavioural property. Nothing is to be changed in the code: your job is to find a concrete input, configuration, message order, fault point or multi-step history on which the code AS IT IS violates the property, and to demonstrate it with a small program that runs the real code.

You have your own scratch git worktree of the repository at {wt} (a checkout of the current HEAD). Work ONLY inside {wt} and write your deliverables to {out}/. Do NOT read, list or touch /verif or /repo. Python is /venv/bin/python (rally and its dependencies are installed; run programs with the working directory set to {wt} and `PYTHONPATH={wt}` so that `import esrally` resolves to your worktree). No network is available; no Elasticsearch is available (fake the client / transport / actor system as narrowly as you can and run everything else for real).

THE PROPERTY ({p['id']}: {p['title']})
{p['statement']}

It must hold: {p['quantifier']['text']}

Why the existing tests do not settle it: {p['why_tests_cant']}

Where the code that is meant to make it hold lives ({', '.join(p['anchors']['files'])}):
{mech}

{("ALREADY KNOWN (do not report these again; look elsewhere):" + chr(10) + chr(10).join("  - " + s for s in seen) + chr(10)) if seen else ""}
HOW TO WORK
  * Read the anchored code and everything it calls, clause by clause of the property. For each clause ask: which input class, boundary value (0, empty, None, one element, maximum), unusual-but-legal configuration (documented in docs/), ordering of messages / wake-ups / faults, or sequence of operations was probably never tried? Sibling implementations of the same interface that disagree, truthiness tests on values that may legitimately be 0 / empty, state that survives from one step / task / iteration to the next, handlers that catch too much or too little, documented behaviour (docs/*.rst) that the code does not implement are all good places to look.
  * A finding only counts if you can SHOW it: a program `{out}/fN/demo.py` (self-contained, run as `cd <checkout> && PYTHONPATH=<checkout> /venv/bin/python demo.py`, no hard-coded {wt}) that exercises the real rally code with a legal input / history and exits non-zero with a message that states the expected and the observed behaviour. Add `{out}/fN/notes.md` (10-20 lines): the clause violated, the exact trigger, how a user would meet it, where in the code it goes wrong (file:function), and the smallest repair you would propose (do NOT apply it to the worktree permanently; you may try it temporarily to confirm that your demo then passes and that `cd {wt} && PYTHONPATH={wt} /venv/bin/python -m pytest -q -p no:cacheprovider --timeout=900 --continue-on-collection-errors tests/` still gives the baseline result: 1 failed + 3 collection errors are pre-existing, nothing else may fail — say in notes.md whether you did and what happened; then `git -C {wt} checkout -- .`). NEVER use `git stash`.
  * Be strict with yourself: behaviour the property does not promise, inputs that rally documents as invalid, and situations the property explicitly exempts are NOT findings. Crashes with a clear error message where the property allows "an explicit error" are NOT findings. If the docs and the code disagree, say which statement of the property is affected.
  * Quality over quantity: zero findings is an acceptable answer if you have looked hard; say what you examined and why you believe each clause holds. Up to four findings.

Leave the worktree clean when you are done. Reply with: for each finding its directory, file:function, the violated clause, the trigger in one sentence, the observed vs expected behaviour, and the proposed repair; then a short list of what you examined and found sound, and anything that looked odd but you could not demonstrate.""")
