#!/venv/bin/python
"""Regenerate /verif/MANIFEST.json from the table below (claimed iff rules/<id>.py exists and the id is in META with claimed=True)."""
import json
import os

HERE = os.path.dirname(os.path.dirname(os.path.abspath(__file__)))

# id -> (technique, decided (what the obligations decide), not decided remainder, design section)
META = {
    "C01": ("actor protocol skeleton: per-function CFG dominance / must-pass-through + who-may-construct over the call graph",
            "join points bracket every schedule element; Drive only behind the all-workers barrier; broadcasts cover the whole worker list; completion exactly once; completed-by broadcast guarded by a per-step flag; worker side of the barrier (future awaited, samples shipped, events cleared); complete event set only with cause; wake-up chain has no dead end",
            "absence of races between executor thread and actor thread, FIFO/fairness assumptions of Thespian, 'every client runs its task exactly once' as a count, virtual time"),
    "C02": ("loop-bound / index dataflow + sibling agreement of two emitters (join points vs per-step entries)",
            "step/entry agreement between the matrix builder and tasks_per_joinpoint; row index reduced modulo the row count; per-task client ranges telescope; worker partition tiles 0..n-1 contiguously with round-robin per host; worker ids are list positions",
            "rectangularity of the matrix for all shapes, the per-host ceil split summing to the total (run-time assert), balance across hosts"),
    "C03": ("symbolic inlining + rational-function identity of slice bounds; bounded-read dataflow; factor agreement",
            "slice bounds telescope (end(e) == start(e+1)) and docs/lines/offset are derived consistently; both consumers of bounds() pass role-identical arguments; every source read is bounded by limit - progress; action/meta-data pairing factor agrees across readers; conflict ids stay within the emitted prefix; offset-table writer/reader agree; bulk counting is a ceiling division",
            "exact cover over real file contents, float rounding of round(), byte-exactness of tell() cookies for multi-byte text, order of co-located clients"),
    "C04": ("def-use + formula identity (rational normal form) in the request loop; program-order containment; field flow through Sampler.add -> Sample",
            "service/processing/latency formulas equal the documented definitions; processing interval lexically contains the request context; sleep-until precedes the runner call when throttled; exactly one sample per request on every normal path; the sample's fields land in the attributes of the same meaning; uniform error result and abort condition in execute_single",
            "numeric non-negativity (clock behaviour), growth of latency while behind schedule, third-party trace callbacks"),
    "C05": ("counter idiom + comparator strictness over a finite set of orderings; formula identity of pacing; generator discipline on the CFG",
            "iteration counter guards (>= W+I, < W, (it+1)/(W+I)); time-period guards by direction; generator yields then advances exactly once per iteration; pacing formulas normalise to weight*clients/T; ramp-up formula and placement",
            "the boundary request of time-based tasks, Poisson statistics, plugin schedulers"),
    "C06": ("conservation invariant by CFG path rules (every sample's ops in exactly one of carried total / unprocessed) + formula identity",
            "count += ops exactly once per sample, unconditional; each iteration ends in exactly one of finish-bucket / keep-unprocessed; finish resets unprocessed and carries the total; unprocessed merged into the next batch; monotone interval and safe division; sample type only rises; runner throughput passed through; unit '<ops>/s'",
            "equality of emitted numbers with ops/elapsed for all streams, bucket boundaries under out-of-order arrival"),
    "C07": ("drain/ship/snapshot-and-reset ordering on CFGs + field flow through message fields + hand-over pairing",
            "sampler drain returns everything dequeued; drain read once per ship and used as payload; driver appends whole payload; snapshot-and-reset precedes processing; three records per sample with the attribute of the same name; to_externalizable(clear=True) preceded by post-processing and consumed by bulk_add for TaskFinished and BenchmarkComplete; samples precede the barrier message",
            "at-least/at-most-once under message loss, ES bulk partial failures"),
    "C08": ("call-site argument rule (Normal sample type) + table totality + attribute/key agreement + formula identity of the interpolation",
            "every results query passes the Normal sample type; percentile set depends only on the count and its thresholds partition [1,inf); results attributes/keys agree between calculator, GlobalStats and Race.as_dict/from_dict; interpolation formula equals the documented linear interpolation; error rate = failed/all; no truthiness tests on optional numeric statistics",
            "floating-point behaviour, the ES-backed store's aggregations, loss-freeness of JSON number round-trips"),
    "C09": ("actor protocol graph: handler guard classification, must-pass-through forwarding on CFGs, who-may-construct, 4-row truth table of the results guard",
            "no_retry guard sound; all work handlers guarded; failure forwarding chain from every actor class to race control; every failure/cancel message constructed is sent to an address; executor failures polled and sent; results computed/stored/printed only under not cancelled and not error; Success only via BenchmarkComplete; race() raises on failure replies",
            "worker process death detection by Thespian, timing ('bounded'), faults inside Thespian"),
    "C10": ("registry bijection + field flow from spec keys to Task/Documents attributes + must-raise helper + dominance of validation + guard presence per documented rule",
            "operation-type registry is a bijection agreeing with runner registration; each documented task/corpus key reaches the attribute of that meaning with parallel defaults inherited through the same key; _error raises on every path; schema/version validation dominates construction; a rejecting guard exists for each documented rule; template parameters are registered before rendering",
            "Jinja rendering semantics, JSON-schema semantics, free-form operation parameters"),
    "C11": ("finite abstract interpretation of the filter decision function + shrink-then-empty-check path rule + effect analysis (filter only removes)",
            "decision table of _filter_out_match over {exclude, parallel, matches}; filter parsing table; no parallel element can be shrunk without an emptiness check that removes it; the processor only removes (no attribute stores on tasks, no mutation while iterating)",
            "end-to-end race on the filtered track"),
    "C12": ("actor protocol graph for the mechanic actors: acknowledgement counting dominance, who-may-construct EngineStarted/EngineStopped, external bypass reachability, stop ordering",
            "transition only after len(received)==len(children); EngineStarted/EngineStopped only via the all-children transition or the external branch; expected child count and created node actors use the same expression; external clusters create no actor and send no start/stop; StartNodes failures reported to reply_to; daemon departure sends a failure; stop order launcher stop < flush < system metrics < close < cleanup(preserve flag); no second stop",
            "interleavings of remote daemons joining, real process termination"),
    "C13": ("merge-order analysis of dict.update / item stores into one target; path formula identity; preserve-guard reachability",
            "config-base variables < car variables < car params; cars accumulated in the given order; Rally's node variables applied last; config bases deduplicated in order; target path = root + relpath + name; text files appended, others copied; nothing deleted under preserve",
            "Jinja output, filesystem effects, configparser interpolation"),
    "C14": ("tmp-then-rename argument flow + dominance of size checks + exhaustive format dispatch + retry-loop bounds",
            "download writes only to the temporary path, single rename dominated by the size check, handler removes tmp and re-raises; retry loop range(N+1) for the two protocol errors with re-raise on the last index; existence/size verification after download and decompression; prepare loop breaks only under present-and-expected-size with the offset table built after; every supported archive extension has a branch",
            "archive contents, real network behaviour, crash points inside library calls"),
    "C15": ("optional-int truthiness dataflow from the version-component tuple + precedence order of the variants list + comparator strictness",
            "variants built most-specific first; exact test precedes the nearest-prior-minor fallback; no truthiness test on optional ints (minor/patch 0); eligibility requires same major and minor <= target excluding patch/suffix branches; master only when strictly newer than every versioned branch or unknown; repository fallback order remote < local < tag < raise",
            "git behaviour"),
    "C16": ("handler decision table over the real (parsed) library exception hierarchy + loop-bound identity + sleep-before-back-edge path rule",
            "attempt bound range(retries+1); retry arms only for socket timeout / connection error / connection timeout / 408 under retry-on-timeout and not last; unsuccessful dict result only under retry-on-error and not last; every other exception class raises on all paths; every back edge from a retry arm passes through sleep(retry-wait-period); no handler shadowed by a differently-classified superclass arm",
            "timing of sleeps"),
    "C17": ("who-may-call routing + handler decision table over the real exception hierarchy + counter/bound identity + exponential-in-counter dataflow",
            "every raw client use goes through the guard; target called once per iteration and returned; counter incremented once per iteration and compared with the same constant 10; sleep duration exponential in the counter on every retry path; retry set == {429,502,503,504}; auth/other arms raise Rally errors on every path; no arm returns or leaves the loop silently",
            "partial success inside helpers.bulk, real back-off durations"),
    "C18": ("merge-operator analysis (commutative idempotent min/max) + ContextVar isolation who-may-write + lexical enclosure",
            "values propagated to a parent context are merged with None-safe min (start) / max (end); all timing state is reached through one ContextVar whose only set installs a fresh dict and is reset on exit; the runner invocation is enclosed in a fresh request context per request; composite sub-requests are each wrapped in their own context",
            "asyncio scheduling, aiohttp trace timing"),
    "C19": ("sibling predicate agreement (canonical AST) + regex language query (re._parser) on value delimiters + textual-key contradiction rules",
            "per-item failure predicate / success definition / error-detail extraction identical in detailed and fast path; no JSON value end delimited by a regex class or find on a structural character; selective parser matches on full ijson prefixes with early exit only when all items seen; known findings: fast-path gate vs item predicate (F10), rfind on raw text (F9b)",
            "equivalence on all JSON texts, hit/page accounting arithmetic"),
    "C20": ("direction table over all comparison-line call sites + operand def-use roles + abstract interpretation of _diff over a finite sign/role domain",
            "every comparison line passes a constant direction flag that is increase-is-improvement iff the metric is a throughput; baseline/contender operands depend only on their own side; diff = contender - baseline with mirrored thresholds and the colour table of the three modes; plain flag only affects colour; same formatter for file and console; lines only for metrics present in both",
            "numeric formatting, tabulate output"),
}

NOT_BUILT_REASON = "check not built yet (work in progress); planned obligations in DESIGN.md section 4"


def main():
    props = [json.loads(l) for l in open(os.path.join(HERE, "properties.jsonl"))]
    checks, na = [], []
    for p in props:
        pid = p["id"]
        tech, decided, undecided = META[pid]
        if os.path.exists(os.path.join(HERE, "rules", f"{pid}.py")):
            checks.append({
                "property_id": pid,
                "quick_cmd": f"/venv/bin/python check.py {pid} --tier quick",
                "thorough_cmd": f"/venv/bin/python check.py {pid} --tier thorough",
                "evidence_file": f"evidence/{pid}.json",
                "replay_cmd_template": f"/venv/bin/python check.py {pid} --replay {{path}}",
                "engine": "sa",
                "level_claimed": {
                    "category": "other",
                    "text": f"Static analysis of /repo's current source (nothing of the repository is imported or run): obligations that are NECESSARY conditions of {pid} are discharged on every run — {decided}. "
                            f"The obligations added later (DESIGN 9.5, 9.8; ids and texts are printed by every run and copied into the evidence file) are decided the same way, most of them by walking the "
                            f"extracted functions with the rule module's own evaluator on concrete representative inputs of a finite role domain (no solver, no symbolic paths); a shape the rule cannot "
                            f"locate ends as 'not recognised' (exit 2), never as a pass. "
                            f"Not decided by this technique (and not claimed): {undecided}. thorough additionally runs the both-ways battery (in-memory breaking / behaviour-preserving variants), the kept seeded "
                            f"breaking changes and the kept behaviour-preserving changes of this property as a self-test of the rules.",
                    "design_ref": f"DESIGN.md section 4, {pid}; sections 9.5, 9.8, 9.9",
                },
                "level_note": "Trusted base: CPython ast / re._parser, the sa/ engine (CFG, dominance, symbolic normal forms), the frozen role tables in rules/ (each row cites the doc line or property clause), "
                              "Thespian's receiveMsg_<ClassName> dispatch and per-pair FIFO, documented semantics of stdlib containers. Obligations are necessary, not sufficient: exit 0 means no structural breach, not a proof of the behaviour.",
                "technique": tech + "; value-level decisions by abstract interpretation of the extracted functions on representative inputs (the checker's own AST evaluator)",
            })
        else:
            na.append({"property_id": pid, "reason": NOT_BUILT_REASON})
    m = {
        "version": 1,
        "setup_cmd": "/venv/bin/python -c \"import ast,sys; print('stdlib-only static analysis under', sys.version.split()[0], '- nothing to build')\"",
        "hooks": {
            "guard": "ELASTIC_RALLY_VERIF",
            "enable": "not needed: the checks parse /repo's source and never import or run it; no instrumentation commits exist",
            "baseline_off_cmd": "cd /repo && /venv/bin/python -m pytest -ra -q -p no:cacheprovider --timeout=900 --continue-on-collection-errors",
            "source_commits": [],
            "add_only": True,
        },
        "engines": [{"name": "sa", "path": "sa/", "serves_properties": [c["property_id"] for c in checks],
                     "kind_free_text": "repository-specific static analysis: AST + hand-built statement CFG (dominance, must-pass-through, edge dominance), class table / actor protocol model, symbolic normal forms (truth tables, rational functions), decision-table extraction; stdlib only"}],
        "checks": checks,
        "notes": "exit 0 held / exit 1 + VIOLATION line / exit 2 + ANALYSIS-ERROR (inconclusive: anchor vanished, floor not met, unknown idiom; never on the unchanged tree). "
                 "Genuine defects found while building were repaired by 'fix:' commits in /repo and are listed as fixed in known_findings.json; unrepaired ones are status=known there.",
        "not_applicable": na,
    }
    with open(os.path.join(HERE, "MANIFEST.json"), "w") as f:
        json.dump(m, f, indent=1)
    print(f"claimed={len(checks)} not_applicable={len(na)}")


if __name__ == "__main__":
    main()
