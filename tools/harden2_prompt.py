#!/venv/bin/python
"""Prints the task text for a hardening worker of round 2: make ONE rule module silent on the kept behaviour-preserving changes (benign/) without losing any detection. usage: harden2_prompt.py C03"""
import json
import sys

pid = sys.argv[1]
import os
need = json.load(open(os.environ.get('NEEDS', '/verif/hunt/benign_needs.json'))).get(pid, [])
for l in open('/verif/properties.jsonl'):
    p = json.loads(l)
    if p['id'] == pid:
        break
ids = " ".join(sorted({x[0] for x in need}))
lst = "\n".join(f"  - benign/{b}: {kind} (see benign/{b}/notes.md and patch.diff)" for b, kind in need)
print(f"""You are hardening ONE rule module of a repository-specific static-analysis checker suite against REALISTIC behaviour-preserving refactorings. The suite lives in /verif and analyses the Python sources of elastic/rally in /repo without running them (never modify /repo). Your file is /verif/rules/{pid}.py - edit ONLY that file.

Background (read first, briefly): /verif/DESIGN.md sections 1-3, 9.4, 9.7 and 9.8; the property text for {pid} in /verif/properties.jsonl; your module; the helper APIs in /verif/sa/ (source.py: Repo/Module, walk_body, local_defs, inline / inline_node, bind_args, params_of, enclosing*, package_calls, flat, logical_parent, parse-time normalisations N1-N9 - read the Normalise docstring and propagate_constants: named CONSTANT_CASE module/class constants with literal values are ALREADY replaced by their literals before any rule runs; cfg.py: cfg_of, must_pass / dominated_by_nodes / path_exists, guards(); pat.py: AST patterns with metavariables, fact_nodes; tables.py decide + minieval.py ev / Record: evaluate EXTRACTED tests and expressions on representative values; classes.py: class table, MRO, method_closure (functions reachable through self.m() calls)).

THE PROPERTY ({pid}: {p['title']})
{p['statement']}

WHAT HAPPENED: independent developers wrote 80 realistic BEHAVIOUR-PRESERVING changes of rally (extracted helper methods, restructured control flow - guard clauses, loops turned into comprehensions, if-chains into table dispatch -, consistent renames of attributes / parameters / locals, modernised idioms, constants moved to module level, small additive features such as extra log lines, counters or pass-through fields). Each one is kept under /verif/benign/<id>/ (patch.diff, notes.md with the argument why the property still holds, demo.py that passes with and without it; the full test suite passes with it). The property HOLDS on every one of these trees, so the check for {pid} must be SILENT on them (exit 0: nothing falsified, nothing inconclusive). It is not. On these changes YOUR check currently raises a false alarm (VIOLATION) or gives up (inconclusive / ANALYSIS-ERROR):
{lst}

Evaluate with:   cd /verif && VB_PIDS={pid} /venv/bin/python tools/verify_benign.py --reeval {ids}
(prints, per change, `silent` or the falsified obligations / inconclusive messages of {pid}; it rewrites benign/<id>/meta.json, that is fine). To look at a changed tree, apply the patch in your head from patch.diff; to debug interactively build the overlay as tools/verify_benign.py does (sa.selftest.seeded_overlay(patch, repo.root) -> repo.with_overlay(ov) -> check.run_property("{pid}", "quick", repo=..., quiet=True)).

GOAL, in this order of priority:
 1. NO FALSE ALARM: none of the changes above may produce a falsified obligation of {pid}.
 2. As few inconclusives as possible: re-state the affected obligations so that they RECOGNISE the refactored shapes: follow calls into helper methods / functions of the same class or module (an extracted helper is the most common refactoring: analyse the caller together with what it calls - classes.method_closure, source.bind_args to map arguments to parameters, or inline the helper's returned expression), derive every role from data flow (which value reaches which call / attribute / message field / dict key) instead of from names of locals, attributes, parameters or keyword arguments, decide conditions and arithmetic on VALUES (tables.decide + minieval.ev on representative inputs) instead of on the spelling of the test or of the loop, and accept equivalent containers / iteration idioms (comprehension vs loop, enumerate/zip vs index arithmetic, setdefault / get vs membership test, dict dispatch vs if-chain, while vs for).
 3. Where a role genuinely cannot be located in some shape, the verdict is "not recognised" - chk.unknown(...) / raise AnchorMissing(...) (exit 2) - NEVER a falsified obligation: an obligation may only be falsified when the construct WAS located and is wrong. Review every obligation of your module for this: `ok = <found something> and <it is right>` falsifies on "found nothing"; split it.
 4. Shared rule functions are owned by the module that DEFINES them (e.g. an alarm of {pid} that comes out of `from rules.Cyy import f` is fixed by the Cyy worker, who is working in parallel - skip it and say so); conversely you ARE responsible for every function defined in rules/{pid}.py, also when the alarm shows up under another property.

HARD CONSTRAINTS - run after every change:
 a. `cd /verif && /venv/bin/python check.py {pid} --no-selftest` exits 0 on the unchanged tree (KNOWN-FINDING lines are fine), nothing inconclusive, no rule with fewer instances than before you started (record the per-rule `instances=` first); no obligation deleted (re-stating how it is decided is the point).
 b. `cd /verif && /venv/bin/python -m sa.selftest {pid}` ends with `missed=[] false_alarms=[] ... skipped=[]`: the battery (every `break` variant must still be detected, every `keep` variant silent), every kept seeded mutant under /verif/seeded that {pid} detects (must STILL be detected: a re-stated rule that stops reporting a mutant has been weakened - fix the rule, never the mutant), and every benign/{pid}-* change (must be silent).
 c. `cd /verif && /venv/bin/python tools/metamorph.py T1 T2 T3 T4 T5 T6 T7 T8 T9 T10 --pids={pid}` reports false_alarm=0 inconclusive=0.
 d. `cd /verif && /venv/bin/python tools/try_seed.py <every seeded id of other properties that {pid} reports today>` - simplest: run `/venv/bin/python tools/reeval_seeded.py --one <id>` only if you need it; the selftest in (b) already covers all seeds recorded as detected by {pid}.
 e. Never loosen a rule just to make it quiet: each obligation stays the same NECESSARY CONDITION of the property, decided more robustly. If you re-state one, add a `V(name, "keep", ...)` variant for the refactored shape(s) it now accepts and, if you can think of one, a `V(name, "break", ...)` variant that breaks the property IN THE REFACTORED SHAPE (e.g. the defect placed inside the extracted helper) so that the re-stated rule is shown to still bite. Look at existing V(...) entries for the format (old text must occur exactly once in the file; two-edit variants take a list).
 f. Edit only /verif/rules/{pid}.py. Do not touch /repo, /verif/sa, other rule modules, tools, seeded/, benign/*/patch.diff, known_findings.json, DESIGN.md; do not run git commit / checkout / stash / reset anywhere; do not run `vp`. If a generally useful helper is missing in sa/, write it locally in your module and mention it in your report.
 g. An exception inside the checker is a failure; keep the run time of the check below ~5 s (never copy.deepcopy analysed AST nodes: they carry parent links - re-parse `ast.unparse(node)` instead).

When done reply with: per benign change the outcome (silent / still inconclusive and why / owned by another module), per re-stated obligation one line (what it now derives by role or evaluates), the variants added, the final lines of (a) (b) (c), before/after instance counts per rule, and anything suspicious you noticed in /repo.""")
