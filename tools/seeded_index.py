#!/venv/bin/python
"""Write /verif/seeded/INDEX.md: one row per kept seeded mutant: what it changes, which checks/rules catch it."""
import json, os, re
VERIF = os.path.dirname(os.path.dirname(os.path.abspath(__file__)))
rows = []
for name in sorted(os.listdir(os.path.join(VERIF, "seeded"))):
    mp = os.path.join(VERIF, "seeded", name, "meta.json")
    if not os.path.exists(mp):
        continue
    m = json.load(open(mp))
    patch = open(os.path.join(VERIF, "seeded", name, "patch.diff")).read()
    files = sorted(set(re.findall(r"^\+\+\+ b/(\S+)", patch, flags=re.M)))
    funcs = sorted(set(re.findall(r"^@@.*@@\s*(?:async )?(?:def|class)\s+(\w+)", patch, flags=re.M)))
    det = []
    for pid, v in sorted((m.get("detected_by") or {}).items()):
        rules = sorted(set(re.findall(r"\[(O[\d.]+[a-z]?)\]", " ".join(v.get("lines", [])))))
        det.append(f"{pid} ({', '.join(rules)})" if v.get("exit") == 1 else f"{pid} (inconclusive)")
    what = (m.get("breaks") or "").lstrip("# ").strip()[:150]
    rows.append(f"| {name} | {', '.join(f.replace('esrally/', '') for f in files)} | {', '.join(funcs)[:60]} | {what} | {'; '.join(det) or 'MISSED'} |")
with open(os.path.join(VERIF, "seeded", "INDEX.md"), "w") as f:
    f.write("# Seeded mutants (written by fresh sub-agents from the property text only; each confirmed in a scratch worktree)\n\n")
    f.write("For every row: `patch.diff` applies to /repo HEAD, `demo.py` passes without and fails with it, the pinned suite still passes with it (see meta.json).\n")
    f.write("`detected by` = checks whose quick command reports a VIOLATION on the patched source (tools/reeval_seeded.py; thorough tier re-checks its own rows on every run).\n\n")
    f.write("| mutant | file | function | notes.md headline | detected by (rules) |\n|---|---|---|---|---|\n")
    f.write("\n".join(rows) + "\n")
print(len(rows), "rows")
