#!/venv/bin/python
"""Print the prompt for a sub-agent that writes realistic BEHAVIOUR-PRESERVING changes (refactorings, clean-ups, small features) in the code a property is anchored in.
The checks must stay silent on them: a VIOLATION is a false alarm of the rule (to be corrected), ANALYSIS-ERROR is the designed 'shape not recognised' outcome."""
import json
import sys

import os, re
pid = sys.argv[1]
n = sys.argv[2] if len(sys.argv) > 2 else "4"
first = int(sys.argv[3]) if len(sys.argv) > 3 else 1
done = []
bd = "/verif/benign"
if first > 1 and os.path.isdir(bd):
    for name in sorted(os.listdir(bd)):
        if name.startswith(pid + "-b") and os.path.exists(os.path.join(bd, name, "patch.diff")):
            patch = open(os.path.join(bd, name, "patch.diff")).read()
            fn = sorted(set(re.findall(r"^@@.*@@\s*(?:async )?(?:def|class)\s+(\w+)", patch, flags=re.M)))
            hl = open(os.path.join(bd, name, "notes.md")).read().strip().splitlines()[0].lstrip("# ").strip() if os.path.exists(os.path.join(bd, name, "notes.md")) else ""
            done.append(f"  - ({', '.join(fn)}): {hl[:150]}")
for l in open('/verif/properties.jsonl'):
    p = json.loads(l)
    if p['id'] == pid:
        break
wt = f"/tmp/wt/benign-{pid}"
out = f"/tmp/benign/{pid}"
mech = "\n".join(f"  - {m.get('name')} @ {m.get('where')}" for m in p['anchors']['mechanism'])
print(f"""You are helping to evaluate a verification tool for the open-source project elastic/rally (Elastic's Python macrobenchmarking framework). The tool must NOT raise an alarm on code in which a stated behavioural property still holds. Your job is to write realistic, BEHAVIOUR-PRESERVING source changes — the kind of commits maintainers make every week — in exactly the code that implements the property, so that we can see whether the tool stays quiet.

You have your own scratch git worktree of the repository at {wt} (a checkout of the current HEAD). Work ONLY inside {wt} and write your deliverables to {out}/. Do NOT read, list or touch /verif or /repo. Python is /venv/bin/python (rally and its dependencies are installed; run programs with the working directory set to {wt} and `PYTHONPATH={wt}` so that `import esrally` resolves to your worktree). No network is available.

THE PROPERTY ({p['id']}: {p['title']})
{p['statement']}

It must hold: {p['quantifier']['text']}

Where the code that is meant to make it hold lives ({', '.join(p['anchors']['files'])}):
{mech}

{("ALREADY DONE by an earlier round (do NOT repeat these or close variations; pick OTHER functions among those named above and their direct helpers / callers / data-model classes, and other kinds of change):" + chr(10) + chr(10).join(done) + chr(10)) if done else ""}
WHAT TO PRODUCE: {n} different changes, each in its own directory {out}/b{first}, {out}/b{first + 1}, ... containing:
  * patch.diff — `git diff` of the change against the worktree HEAD (must apply with `git apply` to a clean checkout); touch only files under esrally/.
  * demo.py    — a small self-contained program that exercises the changed code paths of the real rally code on several inputs (including the boundary cases the property talks about) and PASSES (exit 0) both with and without the change, printing the observed behaviour; it should compare behaviour, so that it WOULD fail if the change had altered what the property promises. Run as `cd <checkout> && PYTHONPATH=<checkout> /venv/bin/python demo.py`; no hard-coded {wt}.
  * notes.md   — 5-10 lines: what the change is, why a maintainer would make it, and your argument why the property (every clause of it) still holds afterwards.

KINDS OF CHANGE WANTED (use a different kind for each; all inside or right next to the functions named above)
  - extract a helper function / method from the middle of an anchored function, or inline a small helper into its caller;
  - restructure control flow without changing behaviour: early returns instead of nested ifs (or the reverse), a loop rewritten as a comprehension (or the reverse), `if/elif` chain turned into a dict dispatch, a `while` into a `for`, try/finally into a context manager, merged or split conditions;
  - rename attributes, parameters, locals or a method consistently across its users; reorder independent statements; move a constant to module level; replace a literal by a named constant;
  - modernise idioms: f-strings for %-formatting in log/exception messages, dataclass or namedtuple for a small record class, `pathlib` for `os.path`, type annotations, `enumerate`/`zip` instead of index arithmetic, `dict.get`/`setdefault`, walrus operator;
  - add a small feature that does not touch what the property promises: an extra log line or debug counter, an additional optional parameter with the old default, a new sibling (a further message field that is passed through, one more metric key handled the same way as its siblings, an extra documented-compatible option), extra validation that rejects only inputs rally already rejects, a defensive check that can never fire on legal input;
  - performance-motivated rewrites that keep results identical (caching something immutable, hoisting an invariant out of a loop, using a set for membership).
Make them REAL changes of 5-40 changed lines in the anchored functions, not cosmetic one-liners in unrelated code; each should be something you would be comfortable submitting as a pull request.

REQUIREMENTS FOR EACH CHANGE
  1. The property must still hold in full after the change — be careful and conservative here: if you are not sure a clause is preserved in some corner case, pick another change. Do not change observable behaviour that the property describes (results, ordering, messages sent, records written, errors raised for invalid input).
  2. The FULL existing test suite still passes: `cd {wt} && PYTHONPATH={wt} /venv/bin/python -m pytest -q -p no:cacheprovider --timeout=900 --continue-on-collection-errors tests/` (about 15 s; on the untouched tree it reports 1 failed + 3 collection errors that are pre-existing — those are expected, nothing else may fail).
  3. Build and verify each change from a clean worktree: `git -C {wt} checkout -- .` between changes (and remove stray files); leave the worktree clean when done. NEVER use `git stash`: save with `git diff > file`, restore with `git apply file`.

When finished, reply with a short list: for each change its directory, file/function, the kind of change, and confirmation that the demo passes with and without it and that the full test suite still passes with it.""")
