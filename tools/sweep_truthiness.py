#!/venv/bin/python
"""Cross-reference sweep (not a registered check): conjunctions that test a value by truthiness AND compare the same value numerically
(`x and x != y`, `x and x <= y`) — the shape of F5, F11, F14. Prints candidates for manual triage."""
import ast, os, sys
sys.path.insert(0, os.path.dirname(os.path.dirname(os.path.abspath(__file__))))
from sa import source
repo = source.Repo()
n = 0
for m in repo.all_modules():
    for node in ast.walk(m.tree):
        if isinstance(node, ast.BoolOp) and isinstance(node.op, ast.And):
            bare = {source.u(v) for v in node.values if isinstance(v, (ast.Name, ast.Attribute, ast.NamedExpr))}
            for v in node.values:
                if isinstance(v, ast.Compare) and any(isinstance(o, (ast.Lt, ast.Gt, ast.LtE, ast.GtE, ast.NotEq, ast.Eq)) for o in v.ops):
                    ops = [v.left] + v.comparators
                    for o in ops:
                        if source.u(o) in bare and not any(isinstance(c, ast.Constant) and isinstance(c.value, str) for c in ops):
                            n += 1
                            print(f"{m.relpath}:{node.lineno}: {source.short(node, 140)}")
print(n, "candidate(s)")
