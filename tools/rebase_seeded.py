#!/venv/bin/python
"""Rebase kept seeded patches that no longer apply to /repo's HEAD (after `fix:` commits): try `git apply --3way`-like strategies in a scratch worktree
(patch with fuzz, then ignoring whitespace); the regenerated patch replaces patch.diff only if it applies cleanly; the original is kept as patch.orig.diff.
The demonstration must then be re-run (tools/redemo_seeded.py <ids>).   usage: rebase_seeded.py [ids...]"""
import os
import shutil
import subprocess
import sys

VERIF = os.path.dirname(os.path.dirname(os.path.abspath(__file__)))
ids = sys.argv[1:] or sorted(n for n in os.listdir(f"{VERIF}/seeded") if os.path.exists(f"{VERIF}/seeded/{n}/patch.diff"))
wt = "/tmp/wt/rebase"


def sh(cmd, cwd=None):
    p = subprocess.run(cmd, shell=True, cwd=cwd, capture_output=True, text=True)
    return p.returncode, p.stdout + p.stderr


sh(f"git -C /repo worktree remove --force {wt}")
rc, out = sh(f"git -C /repo worktree add -q --detach {wt} HEAD")
assert rc == 0, out
try:
    for n in ids:
        patch = f"{VERIF}/seeded/{n}/patch.diff"
        sh("git checkout -q -- . && git clean -fdq", wt)
        if sh(f"git apply --check {patch}", wt)[0] == 0:
            continue
        sh("git checkout -q -- . && git clean -fdq", wt)
        ok = False
        for how in (f"patch -p1 -s -F3 --no-backup-if-mismatch < {patch}", f"patch -p1 -s -l -F3 --no-backup-if-mismatch < {patch}", f"git apply --ignore-whitespace -C1 {patch}"):
            sh("git checkout -q -- . && git clean -fdq", wt)
            rc, out = sh(how, wt)
            if rc == 0 and not [f for f in sh("git status --porcelain", wt)[1].splitlines() if f.endswith(".rej") or f.endswith(".orig")]:
                ok = True
                break
        if not ok:
            print(f"{n}: CANNOT rebase automatically ({out.strip().splitlines()[-1] if out.strip() else ''})")
            continue
        rc, diff = sh("git diff", wt)
        py = [f for f in sh("git diff --name-only", wt)[1].split() if f.endswith(".py")]
        rc2, out2 = sh("/venv/bin/python -m py_compile " + " ".join(py), wt) if py else (0, "")
        if rc2 != 0:
            print(f"{n}: rebased patch does not compile")
            continue
        if not os.path.exists(f"{VERIF}/seeded/{n}/patch.orig.diff"):
            shutil.copy(patch, f"{VERIF}/seeded/{n}/patch.orig.diff")
        open(patch, "w").write(diff)
        print(f"{n}: rebased ({how.split()[0]} {'-l' if ' -l ' in how else ''})")
finally:
    sh(f"git -C /repo worktree remove --force {wt}")
    sh("git -C /repo worktree prune")
