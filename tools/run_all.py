#!/venv/bin/python
"""Run every registered check (quick or thorough) in parallel, validate evidence against the schema, print a summary. exit 0 iff all exit 0."""
import json, os, subprocess, sys, time
from concurrent.futures import ThreadPoolExecutor
VERIF = os.path.dirname(os.path.dirname(os.path.abspath(__file__)))
tier = sys.argv[1] if len(sys.argv) > 1 else "quick"
man = json.load(open(os.path.join(VERIF, "MANIFEST.json")))
def run(c):
    cmd = c["quick_cmd"] if tier == "quick" else c["thorough_cmd"]
    t = time.time()
    p = subprocess.run(cmd, shell=True, cwd=VERIF, capture_output=True, text=True)
    return c["property_id"], p.returncode, time.time() - t, p.stdout
with ThreadPoolExecutor(max_workers=8 if tier == "quick" else 3) as ex:
    res = list(ex.map(run, man["checks"]))
bad = 0
try:
    sys.path.insert(0, "/opt/veriftools/pyvenv/lib/python3.11/site-packages")
    import jsonschema
    schema = json.load(open("/root/.vp/EVIDENCE.schema.json"))
except Exception:
    jsonschema = None
for pid, rc, dt, out in res:
    ev = os.path.join(VERIF, "evidence", f"{pid}.json")
    valid = "?"
    if jsonschema and os.path.exists(ev):
        try:
            jsonschema.validate(json.load(open(ev)), schema); valid = "valid"
        except Exception as e:
            valid = "INVALID " + str(e)[:80]
    head = out.splitlines()[0] if out else ""
    extra = [l for l in out.splitlines() if l.startswith(("VIOLATION", "ANALYSIS-ERROR", "KNOWN-FINDING", "SELFTEST"))]
    print(f"{pid} exit={rc} {dt:.1f}s evidence={valid} | {head[:110]}")
    for l in extra:
        print("    " + l[:200])
    bad += rc != 0
sys.exit(1 if bad else 0)
