#!/venv/bin/python
"""Verify sub-agent mutants under /tmp/seed/<PID>/m*/ in a scratch worktree and keep the confirmed ones as /verif/seeded/<PID>-mK/.

For each mutant: demo passes on clean HEAD; patch applies; demo fails with the patch; the pinned test suite still passes with the patch.
Then (with the patch applied to /repo itself, undone straight afterwards) run the registered quick checks and record which fire.
usage: verify_seed.py C06 [m1 m2 ...]
"""
import json
import os
import shutil
import subprocess
import sys

VERIF = os.path.dirname(os.path.dirname(os.path.abspath(__file__)))
pid = sys.argv[1]
only = sys.argv[2:]
src = f"/tmp/seed/{pid}"
wt = f"/tmp/wt/verify-{pid}"


def sh(cmd, cwd=None, env=None, timeout=900):
    e = dict(os.environ)
    if env:
        e.update(env)
    p = subprocess.run(cmd, shell=True, cwd=cwd, env=e, capture_output=True, text=True, timeout=timeout)
    return p.returncode, (p.stdout + p.stderr)


def run_demo(d, cwd):
    demo = "demo.py" if os.path.exists(os.path.join(d, "demo.py")) else "demo_test.py"
    shutil.copy(os.path.join(d, demo), os.path.join(cwd, "_" + demo))
    try:
        if demo == "demo.py":
            return sh(f"/venv/bin/python _{demo}", cwd=cwd, env={"PYTHONPATH": cwd}, timeout=300)
        return sh(f"/venv/bin/python -m pytest -q -p no:cacheprovider _{demo}", cwd=cwd, env={"PYTHONPATH": cwd}, timeout=300)
    finally:
        os.remove(os.path.join(cwd, "_" + demo))


def checks_on_repo(patch):
    """apply to /repo, run all registered quick checks, undo."""
    rc, out = sh(f"git -C /repo apply {patch}")
    if rc != 0:
        return {"error": "patch does not apply to /repo: " + out[-300:]}
    res = {}
    try:
        man = json.load(open(os.path.join(VERIF, "MANIFEST.json")))
        for c in man["checks"]:
            rc, out = sh(c["quick_cmd"] + " > /tmp/_chk.out 2>&1; echo $?", cwd=VERIF)
            code = int(out.strip().splitlines()[-1])
            if code != 0:
                txt = open("/tmp/_chk.out").read()
                lines = [l for l in txt.splitlines() if l.startswith("  [") or l.startswith("ANALYSIS-ERROR")]
                res[c["property_id"]] = {"exit": code, "lines": lines[:4]}
    finally:
        sh("git -C /repo checkout -- .")
        # restore evidence files written while the patch was applied
    return res


sh(f"git -C /repo worktree remove --force {wt}")
rc, out = sh(f"git -C /repo worktree add -q --detach {wt} HEAD")
assert rc == 0, out
summary = []
try:
    for m in sorted(os.listdir(src)):
        d = os.path.join(src, m)
        if not os.path.isdir(d) or (only and m not in only):
            continue
        patch = os.path.join(d, "patch.diff")
        r = {"mutant": f"{pid}-{m}"}
        sh("git checkout -q -- . && git clean -fdq", cwd=wt)
        rc0, out0 = run_demo(d, wt)
        r["demo_clean_exit"] = rc0
        rc, out = sh(f"git apply {patch}", cwd=wt)
        r["applies"] = rc == 0
        if rc != 0:
            r["apply_err"] = out[-300:]
            summary.append(r)
            continue
        rc1, out1 = run_demo(d, wt)
        r["demo_patched_exit"] = rc1
        r["demo_patched_tail"] = out1.strip().splitlines()[-1][:200] if out1.strip() else ""
        rcb, outb = sh(f"{VERIF}/tools/run_baseline.py {wt}", timeout=900)
        r["suite_ok"] = rcb == 0
        r["suite"] = outb.strip().splitlines()[0] if outb.strip() else ""
        sh("git checkout -q -- . && git clean -fdq", cwd=wt)
        r["confirmed"] = rc0 == 0 and rc1 != 0 and rcb == 0
        if r["confirmed"]:
            r["detected_by"] = checks_on_repo(patch) if not os.environ.get("VS_NOCHECK") else {"pending": True}
            dst = os.path.join(VERIF, "seeded", f"{pid}-{m}")
            os.makedirs(dst, exist_ok=True)
            for f in os.listdir(d):
                if os.path.isfile(os.path.join(d, f)):
                    shutil.copy(os.path.join(d, f), dst)
            notes = open(os.path.join(d, "notes.md")).read() if os.path.exists(os.path.join(d, "notes.md")) else ""
            head = subprocess.run("git -C /repo rev-parse --short HEAD", shell=True, capture_output=True, text=True).stdout.strip()
            meta = {
                "property": pid,
                "breaks": notes.strip().splitlines()[0][:300] if notes.strip() else "",
                "needs_to_manifest": "see notes.md",
                "verified_at_repo_head": head,
                "what_was_run": [
                    "demo on clean scratch worktree: exit %d" % rc0,
                    "git apply patch.diff; demo: exit %d (%s)" % (rc1, r["demo_patched_tail"]),
                    "pinned test suite with the patch: %s" % r["suite"],
                ],
                "detected_by": r["detected_by"],
            }
            json.dump(meta, open(os.path.join(dst, "meta.json"), "w"), indent=1)
        summary.append(r)
finally:
    sh(f"git -C /repo worktree remove --force {wt}")
    sh("git -C /repo worktree prune")
for r in summary:
    print(json.dumps(r))
