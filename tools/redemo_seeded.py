#!/venv/bin/python
"""Re-run the demos of kept seeded changes against /repo's current HEAD (after a fix: commit): demo passes on the clean tree, fails with the patch.
usage: redemo_seeded.py [--touching=<path fragment>] [ids...]   (one scratch worktree per property, removed afterwards; the pinned suite is not re-run)"""
import concurrent.futures as cf
import glob
import os
import shutil
import subprocess
import sys

VERIF = os.path.dirname(os.path.dirname(os.path.abspath(__file__)))
touch = [a.split("=", 1)[1] for a in sys.argv[1:] if a.startswith("--touching=")]
ids = [a for a in sys.argv[1:] if not a.startswith("--")]
dirs = sorted(glob.glob(f"{VERIF}/seeded/C*-m*"))
if ids:
    dirs = [d for d in dirs if os.path.basename(d) in ids]
if touch:
    dirs = [d for d in dirs if any(t in open(f"{d}/patch.diff").read() for t in touch)]


def sh(cmd, cwd, env=None):
    e = dict(os.environ, **(env or {}))
    p = subprocess.run(cmd, shell=True, cwd=cwd, env=e, capture_output=True, text=True, timeout=600)
    return p.returncode, (p.stdout + p.stderr)


def demo(d, wt):
    name = "demo.py" if os.path.exists(f"{d}/demo.py") else "demo_test.py"
    shutil.copy(f"{d}/{name}", f"{wt}/_{name}")
    try:
        if name == "demo.py":
            return sh(f"/venv/bin/python _{name}", wt, {"PYTHONPATH": wt})
        return sh(f"/venv/bin/python -m pytest -q -p no:cacheprovider _{name}", wt, {"PYTHONPATH": wt})
    finally:
        os.remove(f"{wt}/_{name}")


def group(pid, ds):
    wt = f"/tmp/wt/redemo-{pid}"
    sh(f"git -C /repo worktree remove --force {wt}", "/")
    rc, out = sh(f"git -C /repo worktree add --detach {wt} HEAD", "/")
    res = []
    try:
        for d in ds:
            c, _ = demo(d, wt)
            a, ao = sh(f"git apply {d}/patch.diff", wt)
            p, po = demo(d, wt) if a == 0 else (None, ao)
            sh("git checkout -- . && git clean -fdq", wt)
            res.append((os.path.basename(d), c, a, p, (po or "").strip().splitlines()[-1:] if p == 0 else ""))
    finally:
        sh(f"git -C /repo worktree remove --force {wt}", "/")
    return res


by = {}
for d in dirs:
    by.setdefault(os.path.basename(d).split("-")[0], []).append(d)
bad = 0
with cf.ThreadPoolExecutor(16) as ex:
    for res in ex.map(lambda kv: group(*kv), by.items()):
        for name, c, a, p, tail in res:
            ok = c == 0 and a == 0 and p not in (0, None)
            bad += not ok
            print(f"{name}: clean={c} applies={a == 0} patched={p} {'OK' if ok else 'PROBLEM ' + str(tail)}")
print(f"{len(dirs)} re-run, {bad} problem(s)")
