#!/venv/bin/python
"""Metamorphic robustness test of the checkers: apply behaviour-preserving source transformations to one module at a time (in memory)
and run every check that consults that module. A VIOLATION on a transformed tree is a FALSE ALARM of the checker (to be fixed in the rule);
an ANALYSIS-ERROR is the designed 'cannot recognise this shape' outcome (acceptable, but worth reducing).

usage: metamorph.py [T1 T2 ...] [--files f1,f2] [--pids C01,C02] [--all]   (--all: print every falsified obligation, not only the first four per run)
"""
from __future__ import annotations

import ast
import json
import os
import sys
from concurrent.futures import ProcessPoolExecutor

VERIF = os.path.dirname(os.path.dirname(os.path.abspath(__file__)))
sys.path.insert(0, VERIF)
from sa import source  # noqa: E402

PIDS = [f"C{i:02d}" for i in range(1, 21)]
ALL = "--all" in sys.argv


def pure(e: ast.AST) -> bool:
    return all(isinstance(n, (ast.Name, ast.Attribute, ast.Constant, ast.Load, ast.Compare, ast.UnaryOp, ast.Not, ast.Is, ast.IsNot, ast.Eq, ast.NotEq, ast.Lt, ast.LtE, ast.Gt, ast.GtE,
                               ast.In, ast.NotIn, ast.USub)) for n in ast.walk(e))


class RenameLocals(ast.NodeTransformer):
    """T1: alpha-rename function-local variables (x -> x_r) in every outermost function; parameters, globals, attributes and names shared with nested scopes' own bindings are kept."""

    def _process(self, f):
        params = set()
        for n in ast.walk(f):
            if isinstance(n, (ast.FunctionDef, ast.AsyncFunctionDef, ast.Lambda)):
                a = n.args
                for x in a.posonlyargs + a.args + a.kwonlyargs + ([a.vararg] if a.vararg else []) + ([a.kwarg] if a.kwarg else []):
                    params.add(x.arg)
        declared = {nm for n in ast.walk(f) if isinstance(n, (ast.Global, ast.Nonlocal)) for nm in n.names}
        stores = {n.id for n in ast.walk(f) if isinstance(n, ast.Name) and isinstance(n.ctx, (ast.Store, ast.Del))}
        # names bound by imports / nested defs / classes / except-as / comprehension scopes are left alone
        skip = set()
        for n in ast.walk(f):
            if isinstance(n, (ast.Import, ast.ImportFrom)):
                skip |= {(a.asname or a.name).split(".")[0] for a in n.names}
            elif isinstance(n, (ast.FunctionDef, ast.AsyncFunctionDef, ast.ClassDef)) and n is not f:
                skip.add(n.name)
            elif isinstance(n, ast.ExceptHandler) and n.name:
                skip.add(n.name)
        todo = stores - params - declared - skip - {"_"}
        if not todo:
            return f

        class R(ast.NodeTransformer):
            def visit_Name(self, n):
                if n.id in todo:
                    return ast.copy_location(ast.Name(id=n.id + "_r", ctx=n.ctx), n)
                return n

        return R().visit(f)

    def visit_FunctionDef(self, node):
        return self._process(node)

    visit_AsyncFunctionDef = visit_FunctionDef


class SwapCommutative(ast.NodeTransformer):
    """T2: reverse the operands of and/or when all are pure; flip pure == / != / < / > comparisons."""

    @staticmethod
    def _total(e):
        """cannot raise whatever the other operands are: names, attributes, `x is [not] None`, `not <total>` (an `a <= b` or `k in d` operand may rely on an earlier None-guard)."""
        if isinstance(e, ast.UnaryOp) and isinstance(e.op, ast.Not):
            return SwapCommutative._total(e.operand)
        if isinstance(e, ast.Compare):
            return len(e.ops) == 1 and isinstance(e.ops[0], (ast.Is, ast.IsNot)) and isinstance(e.left, ast.Name)
        return isinstance(e, ast.Name)

    def visit_BoolOp(self, n):
        self.generic_visit(n)
        if all(self._total(v) for v in n.values):
            n.values = list(reversed(n.values))
        return n

    def visit_Compare(self, n):
        self.generic_visit(n)
        flip = {ast.Eq: ast.Eq, ast.NotEq: ast.NotEq, ast.Lt: ast.Gt, ast.Gt: ast.Lt, ast.LtE: ast.GtE, ast.GtE: ast.LtE}
        if len(n.ops) == 1 and type(n.ops[0]) in flip and pure(n.left) and pure(n.comparators[0]) and not isinstance(n.comparators[0], ast.Constant):
            return ast.copy_location(ast.Compare(left=n.comparators[0], ops=[flip[type(n.ops[0])]()], comparators=[n.left]), n)
        return n


class InsertLogging(ast.NodeTransformer):
    """T3: a logging statement at the start of every function body (after a docstring)."""

    def _ins(self, f):
        self.generic_visit(f)
        stmt = ast.parse("logging.getLogger(__name__).debug('entering')").body[0]
        i = 1 if f.body and isinstance(f.body[0], ast.Expr) and isinstance(f.body[0].value, ast.Constant) and isinstance(f.body[0].value.value, str) else 0
        if any(isinstance(n, (ast.Yield, ast.YieldFrom)) for n in ast.walk(f)) and False:
            return f
        f.body.insert(i, stmt)
        return f

    visit_FunctionDef = _ins
    visit_AsyncFunctionDef = _ins


class ExpandAug(ast.NodeTransformer):
    """T4: x += k  ->  x = x + k for names and self attributes."""

    def visit_AugAssign(self, n):
        if isinstance(n.target, ast.Name) or (isinstance(n.target, ast.Attribute) and isinstance(n.target.value, ast.Name)):
            import copy
            load = copy.deepcopy(n.target)
            load.ctx = ast.Load()
            return ast.copy_location(ast.Assign(targets=[n.target], value=ast.BinOp(left=load, op=n.op, right=n.value)), n)
        return n


class InvertIfElse(ast.NodeTransformer):
    """T5: if c: A else: B  ->  if not c: B else: A  (only two-armed ifs whose else is not an elif)."""

    def visit_If(self, n):
        self.generic_visit(n)
        if n.orelse and not (len(n.orelse) == 1 and isinstance(n.orelse[0], ast.If)):
            t = n.test.operand if isinstance(n.test, ast.UnaryOp) and isinstance(n.test.op, ast.Not) else ast.UnaryOp(op=ast.Not(), operand=n.test)
            n.test, n.body, n.orelse = t, n.orelse, n.body
        return n


class TempForReturn(ast.NodeTransformer):
    """T6: `return <expr>` -> `result_tmp = <expr>; return result_tmp` for non-trivial return expressions (not in lambdas / generators' yields)."""

    def _fix(self, body):
        out = []
        for st in body:
            if isinstance(st, ast.Return) and st.value is not None and not isinstance(st.value, (ast.Name, ast.Constant)):
                out.append(ast.copy_location(ast.Assign(targets=[ast.Name(id="result_tmp", ctx=ast.Store())], value=st.value), st))
                out.append(ast.copy_location(ast.Return(value=ast.Name(id="result_tmp", ctx=ast.Load())), st))
            else:
                out.append(st)
        return out

    def generic_visit(self, node):
        super().generic_visit(node)
        for f in ("body", "orelse", "finalbody"):
            b = getattr(node, f, None)
            if isinstance(b, list) and b and isinstance(b[0], ast.stmt):
                setattr(node, f, self._fix(b))
        return node


class SplitAnd(ast.NodeTransformer):
    """T7: `if a and b: X` (no else) -> `if a: if b: X`."""

    def visit_If(self, n):
        self.generic_visit(n)
        if not n.orelse and isinstance(n.test, ast.BoolOp) and isinstance(n.test.op, ast.And) and len(n.test.values) == 2:
            inner = ast.copy_location(ast.If(test=n.test.values[1], body=n.body, orelse=[]), n)
            return ast.copy_location(ast.If(test=n.test.values[0], body=[inner], orelse=[]), n)
        return n


class AnnotateAssigns(ast.NodeTransformer):
    """T8: `x = v` -> `x: object = v` for plain-name targets inside functions (type hints being added)."""

    def __init__(self):
        self.depth = 0

    def visit_FunctionDef(self, n):
        self.depth += 1
        declared = {nm for x in ast.walk(n) if isinstance(x, (ast.Global, ast.Nonlocal)) for nm in x.names}
        self.declared = getattr(self, "declared", set()) | declared
        self.generic_visit(n)
        self.depth -= 1
        return n

    visit_AsyncFunctionDef = visit_FunctionDef

    def visit_Assign(self, n):
        if self.depth and len(n.targets) == 1 and isinstance(n.targets[0], ast.Name) and n.targets[0].id not in getattr(self, "declared", set()):
            return ast.copy_location(ast.AnnAssign(target=n.targets[0], annotation=ast.Name(id="object", ctx=ast.Load()), value=n.value, simple=1), n)
        return n


def _ends_in_jump(stmts):
    if not stmts:
        return False
    last = stmts[-1]
    if isinstance(last, (ast.Return, ast.Raise, ast.Continue, ast.Break)):
        return True
    return isinstance(last, ast.If) and bool(last.orelse) and _ends_in_jump(last.body) and _ends_in_jump(last.orelse)


class DropElseAfterJump(ast.NodeTransformer):
    """T9: `if c: A(jumps) else: B`  ->  `if c: A(jumps)` followed by B (pylint no-else-return / no-else-raise / no-else-continue)."""

    def _fix(self, body):
        out = []
        for st in body:
            if isinstance(st, ast.If) and st.orelse and _ends_in_jump(st.body) and not (len(st.orelse) == 1 and isinstance(st.orelse[0], ast.If) and st.orelse[0].orelse and False):
                rest, st.orelse = st.orelse, []
                out.append(st)
                out.extend(self._fix(rest))
            else:
                out.append(st)
        return out

    def generic_visit(self, node):
        super().generic_visit(node)
        for f in ("body", "orelse", "finalbody"):
            b = getattr(node, f, None)
            if isinstance(b, list) and b and isinstance(b[0], ast.stmt):
                setattr(node, f, self._fix(b))
        return node


class AddElseAfterJump(ast.NodeTransformer):
    """T10: guard clause `if c: A(jumps)` + rest of the block  ->  `if c: A(jumps) else: rest` (the opposite of T9)."""

    def _fix(self, body):
        for i, st in enumerate(body):
            if isinstance(st, ast.If) and not st.orelse and _ends_in_jump(st.body) and i + 1 < len(body):
                st.orelse = self._fix(body[i + 1:])
                return body[: i + 1]
        return body

    def generic_visit(self, node):
        super().generic_visit(node)
        for f in ("body", "orelse", "finalbody"):
            b = getattr(node, f, None)
            if isinstance(b, list) and b and isinstance(b[0], ast.stmt):
                setattr(node, f, self._fix(b))
        return node


TRANSFORMS = {"T1": RenameLocals, "T2": SwapCommutative, "T3": InsertLogging, "T4": ExpandAug, "T5": InvertIfElse, "T6": TempForReturn, "T7": SplitAnd, "T8": AnnotateAssigns, "T9": DropElseAfterJump, "T10": AddElseAfterJump}


def transform(text: str, tname: str) -> str | None:
    tree = ast.parse(text)
    if tname == "T3" and not any(isinstance(n, ast.Import) and any(a.name == "logging" for a in n.names) for n in tree.body):
        return None
    tree = TRANSFORMS[tname]().visit(tree)
    ast.fix_missing_locations(tree)
    out = ast.unparse(tree)
    compile(out, "<t>", "exec")
    return out


def files_of(pid: str) -> list[str]:
    ev = os.path.join(VERIF, "evidence", f"{pid}.json")
    return [f for f in json.load(open(ev))["coverage"]["files"] if f.endswith(".py")]


def job(args):
    tname, relpath, pid = args
    import check as check_mod
    base = source.Repo()
    try:
        new = transform(base.text(relpath), tname)
    except Exception as e:  # transformation itself failed: not a checker problem
        return tname, relpath, pid, "skip", [f"transform failed: {type(e).__name__}: {e}"]
    if new is None:
        return tname, relpath, pid, "skip", []
    chk = check_mod.run_property(pid, "quick", repo=base.with_overlay({relpath: new}), quiet=True)
    for rid, r in chk.rules.items():
        if r["instances"] < r["floor"]:
            chk.inconclusive.append(f"{rid}: floor ({r['instances']} < {r['floor']})")
    known = chk._known()
    bad = [o for o in chk.obligations if not o.ok and not any(e.get("rule") == o.rule and e.get("construct") and e["construct"] in o.key for e in known)]
    if bad:
        return tname, relpath, pid, "FALSE-ALARM", [f"[{o.rule}] {o.instance}: {o.detail}"[:220] for o in (bad if ALL else bad[:4])]
    if chk.inconclusive:
        return tname, relpath, pid, "inconclusive", [m[:220] for m in chk.inconclusive[:3]]
    return tname, relpath, pid, "silent", []


def main():
    args = [a for a in sys.argv[1:] if not a.startswith("--")]
    ts = [a for a in args if a in TRANSFORMS] or ["T1", "T2", "T3", "T4", "T5"]  # T6 / T7 only on request
    pids = PIDS
    only_files = None
    for a in sys.argv[1:]:
        if a.startswith("--pids="):
            pids = a.split("=", 1)[1].split(",")
        if a.startswith("--files="):
            only_files = a.split("=", 1)[1].split(",")
    jobs = []
    for pid in pids:
        for f in files_of(pid):
            if only_files and f not in only_files:
                continue
            for t in ts:
                jobs.append((t, f, pid))
    with ProcessPoolExecutor(max_workers=16) as ex:
        res = list(ex.map(job, jobs))
    fa = [r for r in res if r[3] == "FALSE-ALARM"]
    inc = [r for r in res if r[3] == "inconclusive"]
    print(f"{len(res)} runs: silent={sum(1 for r in res if r[3] == 'silent')} false_alarm={len(fa)} inconclusive={len(inc)} skipped={sum(1 for r in res if r[3] == 'skip')}")
    for r in fa + inc:
        print(f"{r[3]:12s} {r[0]} {r[2]} {r[1]}")
        for l in r[4]:
            print("      " + l)
    return 1 if fa else 0


if __name__ == "__main__":
    sys.exit(main())
