#!/venv/bin/python
"""Re-evaluate every kept seeded mutant against ALL current checks using in-memory overlays (patch applied to scratch copies, never to /repo)
and refresh meta.json's detected_by. Prints a matrix."""
import json, os, sys
import subprocess
from concurrent.futures import ThreadPoolExecutor
VERIF = os.path.dirname(os.path.dirname(os.path.abspath(__file__)))
sys.path.insert(0, VERIF)
from sa import selftest, source, report
PIDS = [f"C{i:02d}" for i in range(1, 21)]

def one(name):
    import check as check_mod
    base = source.Repo()
    ov = selftest.seeded_overlay(os.path.join(VERIF, "seeded", name, "patch.diff"), base.root)
    if ov is None:
        return name, None
    files = set(ov)
    out = {}
    for pid in PIDS:
        chk = check_mod.run_property(pid, "quick", repo=base.with_overlay(ov), quiet=True)
        for rid, r in chk.rules.items():
            if r["instances"] < r["floor"]:
                chk.inconclusive.append(f"{rid}: floor")
        known = chk._known()
        bad = [o for o in chk.obligations if not o.ok and not any(e.get("rule") == o.rule and e.get("construct") and e["construct"] in o.key for e in known)]
        if bad:
            out[pid] = {"exit": 1, "lines": [f"  [{o.rule}] {o.instance} @ {o.site}: {o.detail}"[:300] for o in bad[:3]]}
        elif chk.inconclusive:
            out[pid] = {"exit": 2, "lines": ["ANALYSIS-ERROR " + m[:250] for m in chk.inconclusive[:2]]}
    return name, out

def main():
    names = sorted(n for n in os.listdir(os.path.join(VERIF, "seeded")) if os.path.exists(os.path.join(VERIF, "seeded", n, "meta.json")))
    def sub(name):
        # one process per seeded change: the engine's per-repository caches are never released, a long-lived worker grows by ~0.4 GB per change
        p = subprocess.run([sys.executable, os.path.abspath(__file__), "--one", name], capture_output=True, text=True)
        if p.returncode != 0:
            raise SystemExit(f"{name}: evaluation failed\n{p.stderr[-2000:]}")
        return name, json.loads(p.stdout)

    with ThreadPoolExecutor(max_workers=16) as ex:
        res = list(ex.map(sub, names))
    missed = []
    for name, out in res:
        mp = os.path.join(VERIF, "seeded", name, "meta.json")
        m = json.load(open(mp))
        if out is None:
            print(f"{name}: patch no longer applies"); continue
        m["detected_by"] = out
        json.dump(m, open(mp, "w"), indent=1)
        own = name.split("-")[0]
        viol = sorted(p for p, v in out.items() if v["exit"] == 1)
        inc = sorted(p for p, v in out.items() if v["exit"] == 2)
        print(f"{name}: violation by {viol or '-'}" + (f" inconclusive in {inc}" if inc else "") + ("" if own in viol else "   <-- not caught by its own property's check"))
        if not viol:
            missed.append(name)
    print("MISSED:", missed)


if __name__ == "__main__":
    if len(sys.argv) == 3 and sys.argv[1] == "--one":
        print(json.dumps(one(sys.argv[2])[1]))
    else:
        main()
