#!/venv/bin/python
"""Run the pinned test suite in a repo dir (default /repo) and compare with BASELINE.json's stable_pass list.
usage: run_baseline.py [repo_dir]   exit 0 iff every stable_pass test passed."""
import json, os, subprocess, sys, tempfile
import xml.etree.ElementTree as ET

repo = sys.argv[1] if len(sys.argv) > 1 else "/repo"
base = json.load(open("/root/.vp/BASELINE.json"))
stable = set(base["stable_pass"])
with tempfile.TemporaryDirectory() as d:
    xmlp = os.path.join(d, "j.xml")
    env = dict(os.environ)
    env.pop("ELASTIC_RALLY_VERIF", None)
    subprocess.run(["/venv/bin/python", "-m", "pytest", "-q", "-p", "no:cacheprovider", "--timeout=900", "--continue-on-collection-errors",
                    f"--junitxml={xmlp}"], cwd=repo, stdout=subprocess.DEVNULL, stderr=subprocess.DEVNULL, env=env)
    passed = set()
    for tc in ET.parse(xmlp).getroot().iter("testcase"):
        if not any(c.tag in ("failure", "error", "skipped") for c in tc):
            cn, n = tc.get("classname"), tc.get("name")
            # classname like tests.a.b_test.TestX -> tests.a.b_test.TestX::name ; module-level tests.a.b_test -> tests.a.b_test::name
            passed.add(f"{cn}::{n}")
missing = sorted(stable - passed)
print(f"stable_pass={len(stable)} passed_now={len(passed)} missing={len(missing)}")
for m in missing[:20]:
    print("  MISSING", m)
sys.exit(1 if missing else 0)
