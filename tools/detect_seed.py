#!/venv/bin/python
"""Run every registered quick check against kept seeded changes: apply the patch to /repo, run the checks (in parallel), undo straight afterwards,
and record which checks fired in seeded/<id>/meta.json.   usage: detect_seed.py [C01-m4 ...]   (default: every seeded dir whose meta says pending)"""
import json
import os
import subprocess
import sys
from concurrent.futures import ThreadPoolExecutor

VERIF = os.path.dirname(os.path.dirname(os.path.abspath(__file__)))
SEEDED = os.path.join(VERIF, "seeded")


def sh(cmd, cwd=None):
    p = subprocess.run(cmd, shell=True, cwd=cwd, capture_output=True, text=True)
    return p.returncode, p.stdout + p.stderr


def one(c):
    rc, out = sh(c["quick_cmd"], cwd=VERIF)
    lines = [l for l in out.splitlines() if l.startswith("  [") or l.startswith("ANALYSIS-ERROR") or l.startswith("VIOLATION")]
    return c["property_id"], rc, lines[:5]


def main():
    ids = sys.argv[1:]
    if not ids:
        for d in sorted(os.listdir(SEEDED)):
            mp = os.path.join(SEEDED, d, "meta.json")
            if os.path.exists(mp) and json.load(open(mp)).get("detected_by", {}).get("pending"):
                ids.append(d)
    man = json.load(open(os.path.join(VERIF, "MANIFEST.json")))
    assert sh("git -C /repo status --porcelain")[1].strip() == "", "/repo is not clean"
    # the checks rewrite evidence/<id>.json on every run: keep the clean-tree evidence and put it back afterwards
    # (evidence written while a seeded patch is applied describes the patched tree and must never be committed)
    ev_dir = os.path.join(VERIF, "evidence")
    saved = {f: open(os.path.join(ev_dir, f), "rb").read() for f in os.listdir(ev_dir) if f.endswith(".json")}
    try:
        _run(ids, man)
    finally:
        for f, data in saved.items():
            with open(os.path.join(ev_dir, f), "wb") as fh:
                fh.write(data)


def _run(ids, man):
    for sid in ids:
        d = os.path.join(SEEDED, sid)
        rc, out = sh(f"git -C /repo apply {d}/patch.diff")
        if rc != 0:
            print(sid, "patch does not apply:", out[-200:])
            continue
        try:
            with ThreadPoolExecutor(10) as ex:
                res = list(ex.map(one, man["checks"]))
        finally:
            sh("git -C /repo checkout -- .")
            sh("git -C /repo clean -fdq")
        det = {p: {"exit": rc, "lines": lines} for p, rc, lines in res if rc != 0}
        meta = json.load(open(os.path.join(d, "meta.json")))
        meta["detected_by"] = det
        json.dump(meta, open(os.path.join(d, "meta.json"), "w"), indent=1)
        own = sid.split("-")[0]
        print(f"{sid}: " + (", ".join(f"{p}(exit {v['exit']})" for p, v in det.items()) or "MISSED") + ("" if own in det and det[own]["exit"] == 1 else "   <-- own check did not report a violation"))
        for p, v in det.items():
            for l in v["lines"][:2]:
                print("      ", p, l[:200])


if __name__ == "__main__":
    main()
