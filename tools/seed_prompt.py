#!/venv/bin/python
"""Print the prompt for a mutant-seeding sub-agent for property <id> (property text + scratch worktree only; nothing from /verif)."""
import json, sys
import os, re
pid = sys.argv[1]
n = sys.argv[2] if len(sys.argv) > 2 else "3"
first = int(sys.argv[3]) if len(sys.argv) > 3 else 1
avoid = []
sd = "/verif/seeded"
if first > 1 and os.path.isdir(sd):
    for name in sorted(os.listdir(sd)):
        if name.startswith(pid + "-"):
            patch = open(os.path.join(sd, name, "patch.diff")).read()
            fs = sorted(set(re.findall(r"^\+\+\+ b/(\S+)", patch, flags=re.M)))
            fn = sorted(set(re.findall(r"^@@.*@@\s*(?:async )?(?:def|class)\s+(\w+)", patch, flags=re.M)))
            hl = open(os.path.join(sd, name, "notes.md")).read().strip().splitlines()[0].lstrip("# ").strip() if os.path.exists(os.path.join(sd, name, "notes.md")) else ""
            avoid.append(f"  - {', '.join(fs)} ({', '.join(fn)}): {hl[:140]}")
for l in open('/verif/properties.jsonl'):
    p = json.loads(l)
    if p['id'] == pid:
        break
wt = f"/tmp/wt/{pid}"
out = f"/tmp/seed/{pid}"
mech = "\n".join(f"  - {m.get('name')} @ {m.get('where')}" for m in p['anchors']['mechanism'])
print(f"""You are helping to evaluate a verification tool for the open-source project elastic/rally (Elastic's Python macrobenchmarking framework). Your job is to write realistic *bugs*: small source changes that silently break one stated behavioural property of rally while everything still compiles and the existing test suite still passes.

You have your own scratch git worktree of the repository at {wt} (a checkout of the current HEAD). Work ONLY inside {wt} and write your deliverables to {out}/. Do NOT read, list or touch /verif or /repo (the point is that your changes are independent of what the tool can already detect). Python is /venv/bin/python (rally and its dependencies are installed there in development mode from /repo, so to exercise your modified code run programs with the working directory set to {wt} and `PYTHONPATH={wt}` so that `import esrally` resolves to your worktree — verify with `python -c "import esrally; print(esrally.__file__)"`). No network is available.

THE PROPERTY ({p['id']}: {p['title']})
{p['statement']}

It must hold: {p['quantifier']['text']}

Where the code that is meant to make it hold lives ({', '.join(p['anchors']['files'])}):
{mech}

{("ALREADY TAKEN (an earlier round produced these; do NOT repeat them or trivial variations of them — pick other functions, other clauses of the property, helper/sibling code paths, data-model classes, or changes where two sites cooperate):" + chr(10) + chr(10).join(avoid) + chr(10)) if avoid else ""}
WHAT TO PRODUCE: {n} different changes ("mutants"), each in its own directory {out}/m{first}, {out}/m{first + 1}, ... containing:
  * patch.diff   — `git diff` of the change against the worktree HEAD (must apply with `git apply` to a clean checkout); touch only files under esrally/ (no test edits).
  * demo.py      — a small self-contained program (or pytest file named demo_test.py) that exercises the real rally code and FAILS (non-zero exit / failing assertion) with the change applied and PASSES without it. It should demonstrate the violation of the property above (wrong observable behaviour), not merely detect the text of the change. Run it as `cd <checkout> && PYTHONPATH=<checkout> /venv/bin/python demo.py`; do not hard-code {wt} inside it (use the current directory / PYTHONPATH).
  * notes.md     — 5-15 lines: what the change is, why it breaks the property, what specific condition is needed for the violation to manifest, and why the existing tests do not notice.

REQUIREMENTS FOR EACH MUTANT
  1. The tree with the change still imports/compiles and the FULL existing test suite still passes: run `cd {wt} && PYTHONPATH={wt} /venv/bin/python -m pytest -q -p no:cacheprovider --timeout=900 --continue-on-collection-errors tests/<relevant dirs>` while iterating and the whole suite (`tests/`, about 15 s; on the untouched tree it reports 1 failed + 3 collection errors that are pre-existing — those are expected, nothing else may fail) before you finish each mutant.
  2. The change must be something that could plausibly slip through code review: a refactor that drops a case, an off-by-one in a boundary, a changed operator or comparison, a reordered pair of statements, a handler that catches too much or too little, a missing reset, a wrong variable of the same type, an "optimisation" that skips a step. Not an obviously malicious or nonsensical edit, and not one that ordinary use would expose at once.
  3. The violation should need something SPECIFIC to manifest: a particular interleaving or message order, a crash or fault at a particular point, a multi-step sequence of operations, an unusual but legal input (boundary value, zero, empty element, special character), or two cooperating sites that each look fine alone. Prefer mutants that differ from each other in mechanism and location (different functions / different clauses of the property).
  4. Keep each change small (typically 1-10 changed lines).
  5. Make sure each mutant is built and verified from a clean worktree: `git -C {wt} checkout -- .` between mutants; leave the worktree clean (no uncommitted changes, no stray files) when you are done. NEVER use `git stash` (the stash is shared between all worktrees of the repository and other people work in theirs at the same time): save your change with `git diff > file` and restore it with `git apply file`.

When finished, reply with a short list: for each mutant its directory, the file/function changed, one sentence on the broken clause and the trigger, and confirmation that (a) demo fails with / passes without the patch and (b) the full test suite still passes with the patch.""")
