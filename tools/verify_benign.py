#!/venv/bin/python
"""Verify sub-agent BEHAVIOUR-PRESERVING changes under /tmp/benign/<PID>/b*/ in a scratch worktree, keep the confirmed ones as /verif/benign/<PID>-bK/ and evaluate
every check on them through in-memory overlays (nothing is applied to /repo). A VIOLATION on one of them is a false alarm of the reporting rule.
usage: verify_benign.py C06 [b1 b2 ...]        re-evaluation of the kept ones only: verify_benign.py --reeval [ids...]"""
import json
import os
import shutil
import subprocess
import sys
from concurrent.futures import ThreadPoolExecutor

VERIF = os.path.dirname(os.path.dirname(os.path.abspath(__file__)))
sys.path.insert(0, VERIF)
PIDS = [f"C{i:02d}" for i in range(1, 21)]
if os.environ.get("VB_PIDS"):  # restrict the evaluation to some checks (faster while working on one rule module): VB_PIDS=C03,C14
    PIDS = [p for p in PIDS if p in os.environ["VB_PIDS"].split(",")]


def sh(cmd, cwd=None, env=None, timeout=900):
    e = dict(os.environ)
    if env:
        e.update(env)
    p = subprocess.run(cmd, shell=True, cwd=cwd, env=e, capture_output=True, text=True, timeout=timeout)
    return p.returncode, (p.stdout + p.stderr)


def evaluate(patch):
    """all twenty checks on the tree with the patch (overlay); returns {pid: {"exit": 1|2, "lines": [...]}} for the non-silent ones."""
    from sa import selftest, source
    import check as check_mod
    base = source.Repo()
    ov = selftest.seeded_overlay(patch, base.root)
    if ov is None:
        return None
    out = {}
    for pid in PIDS:
        chk = check_mod.run_property(pid, "quick", repo=base.with_overlay(ov), quiet=True)
        for rid, r in chk.rules.items():
            if r["instances"] < r["floor"]:
                chk.inconclusive.append(f"{rid}: fewer instances than the confirmed floor ({r['instances']} < {r['floor']})")
        known = chk._known()
        bad = [o for o in chk.obligations if not o.ok and not any(e.get("rule") == o.rule and e.get("construct") and e["construct"] in o.key for e in known)]
        if bad:
            out[pid] = {"exit": 1, "lines": [f"  [{o.rule}] {o.instance} @ {o.site}: {o.detail}"[:400] for o in bad[:4]]}
        elif chk.inconclusive:
            out[pid] = {"exit": 2, "lines": ["ANALYSIS-ERROR " + m[:300] for m in chk.inconclusive[:3]]}
    return out


def reeval(names):
    def sub(name):
        p = subprocess.run([sys.executable, os.path.abspath(__file__), "--one", name], capture_output=True, text=True)
        if p.returncode != 0:
            return name, {"error": p.stderr[-1500:]}
        return name, json.loads(p.stdout)

    fa = inc = 0
    with ThreadPoolExecutor(16) as ex:
        for name, out in ex.map(sub, names):
            mp = os.path.join(VERIF, "benign", name, "meta.json")
            m = json.load(open(mp))
            if os.environ.get("VB_PIDS") and isinstance(out, dict) and isinstance(m.get("checks"), dict):
                # a restricted re-evaluation replaces the results of the evaluated checks only
                out = {**{k: v for k, v in m["checks"].items() if k not in PIDS}, **out}
            m["checks"] = out
            json.dump(m, open(mp, "w"), indent=1)
            if out is None:
                print(f"{name}: patch no longer applies")
                continue
            v = sorted(p for p, r in out.items() if isinstance(r, dict) and r.get("exit") == 1)
            i = sorted(p for p, r in out.items() if isinstance(r, dict) and r.get("exit") == 2)
            fa += bool(v)
            inc += bool(i) and not v
            print(f"{name}: " + ("silent" if not v and not i and "error" not in out else f"FALSE-ALARM {v} inconclusive {i} {out.get('error', '')}"))
            for p in v + i:
                for l in out[p]["lines"][:3]:
                    print(f"      {p} {l}")
    print(f"{len(names)} benign change(s): {fa} with a false alarm, {inc} inconclusive only")


if __name__ == "__main__":
    if sys.argv[1] == "--one":
        print(json.dumps(evaluate(os.path.join(VERIF, "benign", sys.argv[2], "patch.diff"))))
        sys.exit(0)
    if sys.argv[1] == "--reeval":
        names = sys.argv[2:] or sorted(n for n in os.listdir(os.path.join(VERIF, "benign")) if os.path.exists(os.path.join(VERIF, "benign", n, "meta.json")))
        reeval(names)
        sys.exit(0)
    pid = sys.argv[1]
    only = sys.argv[2:]
    src = f"/tmp/benign/{pid}"
    wt = f"/tmp/wt/vbenign-{pid}"
    sh(f"git -C /repo worktree remove --force {wt}")
    rc, out = sh(f"git -C /repo worktree add -q --detach {wt} HEAD")
    assert rc == 0, out
    kept = []
    try:
        for b in sorted(os.listdir(src)):
            d = os.path.join(src, b)
            if not os.path.isdir(d) or (only and b not in only) or not os.path.exists(os.path.join(d, "patch.diff")):
                continue
            r = {"change": f"{pid}-{b}"}
            sh("git checkout -q -- . && git clean -fdq", cwd=wt)

            def demo():
                shutil.copy(os.path.join(d, "demo.py"), os.path.join(wt, "_demo.py"))
                try:
                    return sh("/venv/bin/python _demo.py", cwd=wt, env={"PYTHONPATH": wt}, timeout=300)
                finally:
                    os.remove(os.path.join(wt, "_demo.py"))

            rc0, _ = demo() if os.path.exists(os.path.join(d, "demo.py")) else (0, "")
            rc, out = sh(f"git apply {d}/patch.diff", cwd=wt)
            r["applies"] = rc == 0
            if rc != 0:
                print(json.dumps(r))
                continue
            rc1, o1 = demo() if os.path.exists(os.path.join(d, "demo.py")) else (0, "")
            rcb, outb = sh(f"{VERIF}/tools/run_baseline.py {wt}", timeout=900)
            sh("git checkout -q -- . && git clean -fdq", cwd=wt)
            r.update(demo_clean=rc0, demo_patched=rc1, suite=outb.strip().splitlines()[0] if outb.strip() else "", confirmed=rc0 == 0 and rc1 == 0 and rcb == 0)
            print(json.dumps(r))
            if r["confirmed"]:
                dst = os.path.join(VERIF, "benign", f"{pid}-{b}")
                os.makedirs(dst, exist_ok=True)
                for f in os.listdir(d):
                    if os.path.isfile(os.path.join(d, f)):
                        shutil.copy(os.path.join(d, f), dst)
                notes = open(os.path.join(d, "notes.md")).read() if os.path.exists(os.path.join(d, "notes.md")) else ""
                head = subprocess.run("git -C /repo rev-parse --short HEAD", shell=True, capture_output=True, text=True).stdout.strip()
                json.dump({"property": pid, "change": notes.strip().splitlines()[0][:300] if notes.strip() else "", "verified_at_repo_head": head,
                           "what_was_run": [f"demo on clean scratch worktree: exit {rc0}", f"demo with the patch: exit {rc1}", f"pinned test suite with the patch: {r['suite']}"], "checks": {}},
                          open(os.path.join(dst, "meta.json"), "w"), indent=1)
                kept.append(f"{pid}-{b}")
    finally:
        sh(f"git -C /repo worktree remove --force {wt}")
        sh("git -C /repo worktree prune")
    if kept:
        reeval(kept)
