#!/venv/bin/python
"""CLI: check.py <property id> [--tier quick|thorough] [--replay <file>]

exit 0  every armed obligation discharged (KNOWN-FINDING lines for listed findings)
exit 1  VIOLATION property=<id> replay=<path>
exit 2  ANALYSIS-ERROR (inconclusive: anchor vanished, floor not met, unknown idiom, checker raised)
"""
from __future__ import annotations

import argparse
import importlib
import json
import os
import sys
import traceback

HERE = os.path.dirname(os.path.abspath(__file__))
sys.path.insert(0, HERE)
sys.dont_write_bytecode = True

from sa import report, source  # noqa: E402


def run_property(pid: str, tier: str, repo=None, quiet=False, exit_process=False):
    chk = report.Check(pid, tier=tier, repo=repo, quiet=quiet)
    try:
        mod = importlib.import_module(f"rules.{pid}")
        mod.run(chk)
    except source.AnchorMissing as e:
        chk.inconclusive.append(f"anchor missing: {e}")
    except report.Inconclusive as e:
        chk.inconclusive.append(f"inconclusive: {e}")
    except Exception as e:  # checker bug: never a violation, never a pass
        tb = traceback.format_exc().strip().splitlines()
        chk.inconclusive.append(f"checker raised {type(e).__name__}: {e} [{' | '.join(tb[-3:])}]")
    return chk


def main() -> int:
    ap = argparse.ArgumentParser()
    ap.add_argument("pid")
    ap.add_argument("--tier", default=os.environ.get("VERIF_TIER", "quick"), choices=["quick", "thorough"])
    ap.add_argument("--replay", default=None)
    ap.add_argument("--no-selftest", action="store_true")
    args = ap.parse_args()
    pid = args.pid
    if args.replay:
        with open(args.replay, encoding="utf-8") as f:
            rp = json.load(f)
        chk = run_property(pid, "quick", quiet=True)
        chk.finish(exit_process=False)
        still = [o for o in chk.obligations if not o.ok and o.key == rp.get("key")]
        print(f"replay of {rp.get('rule')} / {rp.get('instance')} (recorded at {rp.get('site')}):")
        if still:
            o = still[0]
            print(f"  still FALSIFIED @ {o.site}: {o.detail}")
            print(f"VIOLATION property={pid} replay={args.replay}")
            return 1
        same_rule = [o for o in chk.obligations if o.rule == rp.get("rule")]
        print(f"  construct no longer falsified on the current tree ({len(same_rule)} instance(s) of the rule evaluated)")
        return 0
    chk = run_property(pid, args.tier)
    if args.tier == "thorough" and not args.no_selftest:
        try:
            from sa import selftest

            chk.selftest = selftest.run_battery(pid, chk)
        except Exception as e:  # the battery never changes the verdict on the real tree
            chk.selftest = {"error": f"{type(e).__name__}: {e}"}
    return chk.finish(exit_process=False)


if __name__ == "__main__":
    try:
        code = main()
    except SystemExit:
        raise
    except BaseException as e:  # last resort: exit 2, not 1
        print(f"ANALYSIS-ERROR property={sys.argv[1] if len(sys.argv) > 1 else '?'} checker crashed: {type(e).__name__}: {e}")
        traceback.print_exc()
        code = 2
    sys.stdout.flush()
    sys.exit(code)
